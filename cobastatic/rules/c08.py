"""C08 -- multi-process filtering (DESIGN.md 5/C08).

Decided: the channel protocol as written (payload/sentinel separation, pill accounting, exhaustive
completion callback, error propagation, clean-up on every exit incl. abandonment, position of
the per-child limit, in-process equivalence).  Not decided: freedom from hangs under every OS
schedule (needs schedule exploration -- a different family).
"""
import ast

from ..cfg import CFG
from ..model import walk_shallow, call_name, is_self_attr, dotted_name, parent, ancestors, enclosing_function
from ..util import (has_call, find_calls, assigned_value, const_str, unparse, kw, arg_or_kw, enclosing_stmt,
                    guards_of, call_tail, control_ancestors, escape_path, nodes_where, node_ast_for_effects, name_bound, bound_names)
from .. import mutate as M
from . import c03

TECHNIQUE = 'static analysis: CFG path rules with exception edges (every exit of a worker/loader posts its sentinel; clean-up on all paths), callee no-raise summaries, role-resolved queue protocol, position of the per-child limiter, report-channel rules (receive-before-join, untimed wait on {pipe, sentinel}, pickle round-trip proof, handler sets of worker and loader lines), atomic wait-key source, daemon flag'

EXPLANATION = ("Protocol rules over Multiprocessor.filter, its two completion callbacks, QueueSource/QueueSink and "
               "ProcessLine/ThreadLine: every value written to a poison-terminated queue is either the pill at a "
               "designated site or comes from an encoder whose range excludes the pill; pills are written n_procs times "
               "on the input side and once (guarded by the live-lineage counter reaching 0) on the output side; a finished "
               "worker either restarts or decrements; worker exceptions are collected and re-raised; the finally stops the "
               "loader and drains both queues on every exit including abandonment (CFG path check); the per-child limit "
               "sits between unpickler and filter; the single-process arm applies the same Foreach(filter).")
EXPLANATION += ' R7: every handler around the worker line reports what it caught, emptiness is decided from the peeked stream; R8: the failure report always arrives (three known findings).'

PMP = "coba/pipes/multiprocessing.py"
SRC = "coba/pipes/sources.py"
SNK = "coba/pipes/sinks.py"
LNS = "coba/pipes/lines.py"


class Roles:
    """role-based local names of Multiprocessor.filter (robust to renaming)"""

    def __init__(self, fn):
        q = lambda v: isinstance(v, ast.Call) and call_tail(v) == "Queue"
        self.in_queue = name_bound(fn, lambda v: q(v) and bool(v.keywords or v.args), "in_queue")
        self.out_queue = name_bound(fn, lambda v: q(v) and not (v.keywords or v.args), "out_queue")
        self.in_put = name_bound(fn, lambda v: isinstance(v, ast.Call) and call_name(v) == "QueueSink" and v.args and unparse(v.args[0]) == self.in_queue, "in_put")
        self.out_put = name_bound(fn, lambda v: isinstance(v, ast.Call) and call_name(v) == "QueueSink" and v.args and unparse(v.args[0]) == self.out_queue, "out_put")
        self.in_get = name_bound(fn, lambda v: isinstance(v, ast.Call) and call_name(v) == "QueueSource" and v.args and unparse(v.args[0]) == self.in_queue, "in_get")
        self.out_get = name_bound(fn, lambda v: isinstance(v, ast.Call) and call_name(v) == "QueueSource" and v.args and unparse(v.args[0]) == self.out_queue, "out_get")
        lines = bound_names(fn, lambda v: isinstance(v, ast.Call) and call_name(v) == "SourceSink")
        self.load_line = next((n for n in lines if any(isinstance(v.args[0], ast.Call) and call_name(v.args[0]) == "IterableSource" for v in assigned_value(fn, n) if v.args)), "load_line")
        self.filter_line = next((n for n in lines if n != self.load_line), "filter_line")
        self.filt_procs = name_bound(fn, lambda v: isinstance(v, ast.ListComp) and isinstance(v.elt, ast.Call) and call_name(v.elt) == "MyProcessLine", "filt_procs")
        self.load_thread = name_bound(fn, lambda v: isinstance(v, ast.Call) and call_name(v) == "ThreadLine", "load_thread")
        lt = assigned_value(fn, self.load_thread)
        self.loader_cb = unparse(lt[0].args[1]) if lt and len(lt[0].args) > 1 else "loader_finished_or_failed"
        fp = assigned_value(fn, self.filt_procs)
        self.filter_cb = unparse(fp[0].elt.args[1]) if fp and isinstance(fp[0], ast.ListComp) and len(fp[0].elt.args) > 1 else "filter_finished_or_failed"


ROLES = None


def run(ctx):
    global ROLES
    fn = ctx.fn(PMP, "Multiprocessor.filter")
    ROLES = Roles(fn)
    r1_payload_vs_sentinel(ctx, fn)
    r2_pills(ctx, fn)
    r3_errors(ctx, fn)
    r4_cleanup(ctx, fn)
    r5_limit(ctx, fn)
    r6_inprocess(ctx, fn)
    r7_nothing_swallowed(ctx)
    r8_report_channel(ctx)
    r9_no_blocking_receive(ctx)
    r10_wait_keys(ctx)
    r11_workers_die_with_the_parent(ctx)


def r10_wait_keys(ctx, rule="C08.R10"):
    """read_wait: every started worker registers an Event under its own key and waits on it after its last output; the consumer sets the Event when it reads the key.
    Keys are made by completion callbacks running on several threads: two equal keys make the second Event replace the first and the first worker waits for ever."""
    ctx.rule(rule, "wait keys are unique under every interleaving of the threads that start workers: UniqueKey.__init__ takes its number in ONE atomic step -- next() on a "
                   "class-level itertools.count -- never by reading a shared counter and writing it back in a second statement, and never from the size of the shared store; "
                   "MyProcessLine.start builds the key without arguments")
    cls = ctx.model.cls(PMP, "UniqueKey")
    init = cls.methods["__init__"]
    counters = {t.id for st in cls.node.body if isinstance(st, ast.Assign) and isinstance(st.value, ast.Call) and (call_name(st.value) or "").split(".")[-1] == "count"
                for t in st.targets if isinstance(t, ast.Name)}
    sets = [st for st in ast.walk(init) if isinstance(st, (ast.Assign, ast.AugAssign))]
    num = [st for st in sets if isinstance(st, ast.Assign) and any(is_self_attr(t) for t in st.targets)]
    atomic = len(num) == 1 and isinstance(num[0].value, ast.Call) and call_name(num[0].value) == "next" and len(num[0].value.args) == 1 \
        and isinstance(num[0].value.args[0], ast.Attribute) and num[0].value.args[0].attr in counters and unparse(num[0].value.args[0].value) in (cls.name, "type(self)", "self.__class__", "self")
    shared_writes = [st for st in sets if any(isinstance(t, ast.Attribute) and not is_self_attr(t) for t in (st.targets if isinstance(st, ast.Assign) else [st.target]))]
    ctx.ob(rule, PMP, "UniqueKey.__init__", num[0] if num else init, "the key's number is drawn in one atomic step from a class-level itertools.count (no read-then-increment of shared state)",
           atomic and not shared_writes and len(init.args.args) == 1, detail={"number": unparse(num[0].value) if num else None, "shared writes": [unparse(x) for x in shared_writes]}, stmt="UniqueKey number")
    st_ = ctx.fn(PMP, "MyProcessLine.start")
    mk = [c for c in ast.walk(st_) if isinstance(c, ast.Call) and call_name(c) == "UniqueKey"]
    ctx.floor(rule, "UniqueKey constructions in MyProcessLine.start", len(mk), 1)
    for c in mk:
        ctx.ob(rule, PMP, "MyProcessLine.start", c, "the key does not depend on the state of the shared store", not c.args and not c.keywords)


def r11_workers_die_with_the_parent(ctx, rule="C08.R11"):
    """'abandoning the output early also terminates cleanly': the workers of an abandoned call stay blocked in in_queue.get() (no pill is written for them); they are
    daemons, so they end with the program instead of keeping the interpreter from exiting."""
    ctx.rule(rule, "worker processes and the helper threads are daemons: ProcessLine / ThreadLine pass daemon=True to their base constructors and nothing sets it back")
    n = 0
    for cname in ("ProcessLine", "ThreadLine"):
        init = ctx.model.cls(LNS, cname).methods["__init__"]
        sup = [c for c in ast.walk(init) if isinstance(c, ast.Call) and unparse(c.func) == "super().__init__"]
        for c in sup:
            n += 1
            d = kw(c, "daemon")
            ctx.ob(rule, LNS, f"{cname}.__init__", c, "the line is started as a daemon", isinstance(d, ast.Constant) and d.value is True, detail={"daemon": unparse(d) if d is not None else None})
        for m_ in ctx.model.cls(LNS, cname).methods.values():
            for st in ast.walk(m_):
                if isinstance(st, ast.Assign) and any(is_self_attr(t, "daemon") for t in st.targets):
                    ctx.ob(rule, LNS, f"{cname}.{m_.name}", st, "the daemon flag is not changed afterwards", isinstance(st.value, ast.Constant) and st.value.value is True)
    ctx.floor(rule, "base constructor calls of the line classes", n, 2)


def _line(fn, name):
    vals = assigned_value(fn, name)
    if len(vals) != 1 or not isinstance(vals[0], ast.Call):
        return None, []
    out = []
    for a in vals[0].args:
        if isinstance(a, ast.Name):
            vs = assigned_value(fn, a.id)
            out.append((a.id, vs[0] if len(vs) == 1 else None))
        else:
            out.append((unparse(a), a))
    return vals[0], out


def _queue_of(fn, sink_name):
    vs = assigned_value(fn, sink_name)
    if len(vs) == 1 and isinstance(vs[0], ast.Call) and vs[0].args:
        return unparse(vs[0].args[0]), call_name(vs[0])
    return None, None


def r1_payload_vs_sentinel(ctx, fn):
    ctx.rule("C08.R1", "for each queue whose QueueSource stops at the poison value, every payload written by a QueueSink on "
                       "that queue comes from an encoder whose range excludes the poison (Pickler => bytes)")
    # poison used by the readers
    qs_init = ctx.fn(SRC, "QueueSource.__init__")
    names = [a.arg for a in qs_init.args.args]
    default_poison = None
    if "poison" in names:
        i = names.index("poison") - (len(names) - len(qs_init.args.defaults))
        default_poison = unparse(qs_init.args.defaults[i]) if 0 <= i < len(qs_init.args.defaults) else None
    poison_vals = [unparse(v) for v in _self_assigned(fn, "_poison")]
    ctx.ob("C08.R1", PMP, "Multiprocessor.filter", fn, "the pill written by Multiprocessor equals the value QueueSource stops at",
           poison_vals == [default_poison] and default_poison is not None, stmt="poison agreement",
           detail={"written": poison_vals, "reader_default": default_poison})
    rd = ctx.fn(SRC, "QueueSource.read")
    cmp_ = [x for x in walk_shallow(rd) if isinstance(x, ast.Compare) and "self._poison" in unparse(x)]
    ok = bool(cmp_) and all(any(isinstance(s, ast.Break) for s in parent(_enclosing_if(c)).body) if _enclosing_if(c) is not None else False for c in cmp_)
    ctx.ob("C08.R1", SRC, "QueueSource.read", cmp_[0] if cmp_ else rd, "QueueSource ends the stream when it reads the pill", bool(cmp_), stmt="stop at pill")
    for line_name, sink_name, what in ((ROLES.load_line, ROLES.in_put, "in-queue"), (ROLES.filter_line, ROLES.out_put, "out-queue")):
        call, parts = _line(fn, line_name)
        if call is None:
            ctx.ob("C08.R1", PMP, "Multiprocessor.filter", fn, f"the {what} pipeline is a single SourceSink", False, stmt=f"{what} pipeline")
            continue
        kinds = [(n, unparse(v) if v is not None else n) for n, v in parts]
        ok_sink = bool(kinds) and kinds[-1][0] == sink_name
        before = kinds[-2][1] if len(kinds) >= 2 else ""
        encoded = before.startswith("Pickler(")
        ctx.ob("C08.R1", PMP, "Multiprocessor.filter", call,
               f"{what} payloads are produced by an encoder (Pickler) directly before the queue sink, so no payload can equal the pill",
               ok_sink and encoded, detail={"pipeline": [k for _, k in kinds], "stage_before_sink": before},
               stmt=f"{what} payload encoding")
    # readers of the two queues use the default (None) poison => the encoder argument above is what separates them
    for nm, what in ((ROLES.in_get, "in-queue"), (ROLES.out_get, "out-queue")):
        vs = assigned_value(fn, nm)
        ok = len(vs) == 1 and call_name(vs[0]) == "QueueSource" and len(vs[0].args) == 1 and not vs[0].keywords
        ctx.ob("C08.R1", PMP, "Multiprocessor.filter", vs[0] if vs else fn, f"the {what} reader uses the default poison", ok, stmt=f"{what} reader")
    if ctx.thorough:
        # the logger queue of CobaMultiprocessor: payloads are log strings, pill is None written once in the finally
        cm = ctx.fn("coba/multiprocessing.py", "CobaMultiprocessor.filter")
        ws = [c for c in walk_shallow(cm) if isinstance(c, ast.Call) and unparse(c.func) == "write_stdlog.write"]
        ok = len(ws) == 1 and unparse(ws[0].args[0]) == "None" and any(isinstance(c, ast.Try) and b == "finalbody" for c, b in control_ancestors(ws[0], cm))
        ctx.ob("C08.R1", "coba/multiprocessing.py", "CobaMultiprocessor.filter", ws[0] if ws else cm,
               "the log queue is poisoned exactly once, in the finally, after the workers are done", ok, stmt="stdlog pill")


def _enclosing_if(node):
    for a in ancestors(node):
        if isinstance(a, ast.If):
            return a
        if isinstance(a, ast.stmt) and not isinstance(a, ast.If):
            return None
    return None


def _self_assigned(fn, attr):
    return [x.value for x in walk_shallow(fn) if isinstance(x, ast.Assign) and any(is_self_attr(t, attr) for t in x.targets)]


def _callback(fn, name):
    for x in walk_shallow(fn):
        pass
    for s in ast.walk(fn):
        if isinstance(s, ast.FunctionDef) and s.name == name:
            return s
    return None


def r2_pills(ctx, fn):
    ctx.rule("C08.R2", "input side: the loader callback writes [poison]*n_procs; output side: the only pill site is guarded by "
                       "'n_procs == 0' right after the decrement; restart and decrement are the two arms of one if/else")
    lf = _callback(fn, ROLES.loader_cb)
    ff = _callback(fn, ROLES.filter_cb)
    ctx.floor("C08.R2", "completion callbacks", (lf is not None) + (ff is not None), 2)
    ws = [c for c in walk_shallow(lf) if isinstance(c, ast.Call) and unparse(c.func) == f"{ROLES.in_put}.write"]
    ok = len(ws) == 1 and "[self._poison] * self._n_procs" in unparse(ws[0].args[0]) and not guards_of(enclosing_stmt(ws[0]), lf)
    ctx.ob("C08.R2", PMP, "Multiprocessor.filter.loader_finished_or_failed", ws[0] if ws else lf,
           "the loader always ends by writing one pill per worker lineage", ok, stmt="in-queue pills")
    np = _self_assigned(fn, "_n_procs")
    ctx.ob("C08.R2", PMP, "Multiprocessor.filter", fn, "the lineage counter starts at the number of processes",
           [unparse(v) for v in np] == ["self._max_processes"], stmt="_n_procs init")
    procs = assigned_value(fn, ROLES.filt_procs)
    ok = len(procs) == 1 and isinstance(procs[0], ast.ListComp) and unparse(procs[0].generators[0].iter) == "range(self._n_procs)" \
        and call_name(procs[0].elt) == "MyProcessLine" and unparse(procs[0].elt.args[0]) == ROLES.filter_line and unparse(procs[0].elt.args[1]) == ROLES.filter_cb
    ctx.ob("C08.R2", PMP, "Multiprocessor.filter", procs[0] if procs else fn, "exactly n_procs worker lineages are created, each with the completion callback", ok, stmt="filt_procs")
    # output pill
    outw = [c for c in ast.walk(fn) if isinstance(c, ast.Call) and unparse(c.func) == f"{ROLES.out_put}.write"]
    ctx.floor("C08.R2", "out-queue pill sites", len(outw), 1)
    for c in outw:
        in_ff = ff is not None and c in list(ast.walk(ff))
        gs = [(unparse(t), p) for t, p in guards_of(enclosing_stmt(c), ff)] if in_ff else []
        ok = in_ff and unparse(c.args[0]) == "[self._poison]" and ("self._n_procs == 0", True) in gs
        ctx.ob("C08.R2", PMP, "Multiprocessor.filter.filter_finished_or_failed", c, "the single out-queue pill is written only when the last lineage has finished", ok,
               detail={"guards": gs})
    decs = [x for x in walk_shallow(ff) if isinstance(x, ast.AugAssign) and is_self_attr(x.target, "_n_procs")]
    restarts = [c for c in walk_shallow(ff) if isinstance(c, ast.Call) and call_name(c) == "MyProcessLine"]
    ok = len(decs) == 1 and len(restarts) == 1 and isinstance(decs[0].op, ast.Sub) and unparse(decs[0].value) == "1"
    arms_ok = False
    if ok:
        for x in walk_shallow(ff):
            if isinstance(x, ast.If) and any(restarts[0] in list(ast.walk(s)) for s in x.body) and any(decs[0] is s for s in x.orelse):
                arms_ok = True
                body = x.orelse
                i = body.index(decs[0])
                nxt = body[i + 1] if i + 1 < len(body) else None
                arms_ok = isinstance(nxt, ast.If) and unparse(nxt.test) == "self._n_procs == 0"
                cond = unparse(x.test)
                ctx.ob("C08.R2", PMP, "Multiprocessor.filter.filter_finished_or_failed", x,
                       "a worker is restarted only if it was not poisoned, no error was collected and it exited cleanly",
                       all(s in cond for s in ("not worker.poisoned", "not self._exceptions", "worker.exitcode == 0")) and " or " not in cond,
                       stmt="restart condition", detail={"condition": cond})
    ctx.ob("C08.R2", PMP, "Multiprocessor.filter.filter_finished_or_failed", decs[0] if decs else ff,
           "every finished worker does exactly one of restart / decrement(+pill at zero)", ok and arms_ok, stmt="restart xor decrement")
    for c in restarts:
        ok = unparse(c.args[0]) == "worker.pipeline" and unparse(c.args[1]) == ROLES.filter_cb and isinstance(parent(c), ast.Attribute) and parent(c).attr == "start"
        ctx.ob("C08.R2", PMP, "Multiprocessor.filter.filter_finished_or_failed", c, "the replacement worker runs the same pipeline with the same callback and is started", ok)
    # poisoned flag is what QueueSource sets when it consumed a pill
    rd = ctx.fn(SRC, "QueueSource.read")
    st = [x for x in walk_shallow(rd) if isinstance(x, ast.Assign) and any(is_self_attr(t, "_poisoned") for t in x.targets)]
    ok = len(st) == 1 and unparse(st[0].value) == "True" and any("self._poison" in unparse(t) and p for t, p in guards_of(st[0], rd))
    ctx.ob("C08.R2", SRC, "QueueSource.read", st[0] if st else rd, "_poisoned is set exactly when the pill was consumed", ok, stmt="_poisoned")
    for qual in ("ProcessLine.run", "ThreadLine.run"):
        f = ctx.fn(LNS, qual)
        ok = "self._line[0]._poisoned" in unparse(f)
        ctx.ob("C08.R2", LNS, qual, f, "the worker reports its source's poisoned flag to the callback", ok, stmt=f"{qual} reports poisoned")


def r3_errors(ctx, fn):
    ctx.rule("C08.R3", "both callbacks collect worker.exception; after the try/finally the first collected exception is raised")
    for name in (ROLES.loader_cb, ROLES.filter_cb):
        cb = _callback(fn, name)
        ok = False
        for x in walk_shallow(cb):
            if isinstance(x, ast.If) and unparse(x.test) == "worker.exception" and any("self._exceptions.append(worker.exception)" in unparse(s) for s in x.body):
                ok = cb.body.index(x) == 0 if x in cb.body else True
        ctx.ob("C08.R3", PMP, f"Multiprocessor.filter.{name}", cb, "the callback records the worker's exception first", ok, stmt=f"{name} collects exception")
    raises = [x for x in walk_shallow(fn) if isinstance(x, ast.Raise) and x.exc is not None and unparse(x.exc) == "self._exceptions[0]"]
    if not raises:
        ctx.ob("C08.R3", PMP, "Multiprocessor.filter", fn, "a collected worker error is raised to the caller after clean-up", False, stmt="no `raise self._exceptions[0]`")
    tries = [x for x in walk_shallow(fn) if isinstance(x, ast.Try) and x.finalbody]
    for r in raises:
        gs = [(unparse(t), p) for t, p in guards_of(r, fn)]
        after = bool(tries) and r.lineno > max(s.end_lineno for s in tries[-1].finalbody)
        ok = ("self._exceptions", True) in gs and after
        ctx.ob("C08.R3", PMP, "Multiprocessor.filter", r, "a collected worker error is raised to the caller after clean-up", ok, detail={"guards": gs})
    init = _self_assigned(fn, "_exceptions")
    ctx.ob("C08.R3", PMP, "Multiprocessor.filter", fn, "the error list is reset for every call", [unparse(v) for v in init] == ["[]"], stmt="_exceptions init")
    # worker side: exceptions raised by the filter are sent back (ProcessLine.run)
    pr = ctx.fn(LNS, "ProcessLine.run")
    sends = [c for c in walk_shallow(pr) if isinstance(c, ast.Call) and unparse(c.func) == "self._send.send"]
    ok = len(sends) == 1 and not guards_of(enclosing_stmt(sends[0]), pr) and isinstance(sends[0].args[0], ast.Tuple) and len(sends[0].args[0].elts) == 3 \
        and all(isinstance(e, ast.Name) for e in sends[0].args[0].elts[:2]) and "_poisoned" in unparse(sends[0].args[0].elts[2])
    tr = [x for x in pr.body if isinstance(x, ast.Try) and any(isinstance(y, ast.Call) and unparse(y.func) == "self._line.run" for b_ in x.body for y in ast.walk(b_))]
    ok = ok and len(tr) == 1 and any(unparse(h.type) == "Exception" for h in tr[0].handlers if h.type is not None) and bool(tr[0].orelse)
    ctx.ob("C08.R3", LNS, "ProcessLine.run", sends[0] if sends else pr, "the worker always sends (exception, traceback, poisoned) back, whatever happened", ok, stmt="send result")
    # the queue sink's tolerant handler (closed/broken queue) must not swallow errors of the lazily evaluated upstream filter:
    # iterating `item` runs the user's filter, so that iteration must not sit inside the try whose handler just passes
    qw = ctx.fn(SNK, "QueueSink.write")
    g = CFG(qw)
    n_it = 0
    for nd in g.nodes:
        if nd.kind != "iter":
            continue
        names = {x.id for x in ast.walk(nd.ast.iter) if isinstance(x, ast.Name)}
        if not (names & ({a.arg for a in qw.args.args} | {"item", "items"})):
            continue
        n_it += 1
        swallowed = []
        for b, l in g.succ[nd.id]:
            if l == "exc" and g.nodes[b].kind == "handler":
                h = g.nodes[b].ast
                if not any(isinstance(x, ast.Raise) for st in h.body for x in walk_shallow(st)):
                    swallowed.append(unparse(h.type) if h.type is not None else "bare except")
        ctx.ob("C08.R3", SNK, "QueueSink.write", nd.ast, "an exception raised while pulling items from the upstream filter is not swallowed by the sink's queue-error handler",
               not swallowed, detail=None if not swallowed else {"swallowed_by": swallowed, "note": "iterating the written items evaluates the user's filter lazily"})
    ctx.floor("C08.R3", "iterations over written items in QueueSink.write", n_it, 1)


def r4_cleanup(ctx, fn):
    ctx.rule("C08.R4", "the finally stops the loader and drains both queues; it is reached from the consumer loop on normal end, "
                       "on an exception and on abandonment of the output (GeneratorExit at the yield)")
    # callee summary: Stopper.stop only stores a constant into a field, it cannot raise
    sp = ctx.fn(PMP, "Stopper.stop")
    trivial = all(isinstance(s, ast.Assign) and isinstance(s.value, ast.Constant) and all(is_self_attr(t) for t in s.targets) for s in sp.body)
    ctx.ob("C08.R4", PMP, "Stopper.stop", sp, "Stopper.stop only sets a flag (cannot raise, so the clean-up after it always runs)", trivial, stmt="Stopper.stop summary")
    g = CFG(fn, no_raise_calls={"self._load_stopper.stop"} if trivial else ())
    stops = set(nodes_where(g, lambda n: n.kind == "stmt" and has_call(n.ast, "self._load_stopper.stop")))
    drains_in = set(nodes_where(g, lambda n: n.ast is not None and node_ast_for_effects(n) is not None and f"{ROLES.in_queue}.get_nowait()" in unparse(node_ast_for_effects(n))))
    drains_out = set(nodes_where(g, lambda n: n.ast is not None and node_ast_for_effects(n) is not None and f"{ROLES.out_queue}.get_nowait()" in unparse(node_ast_for_effects(n))))
    consumer = [x for x in walk_shallow(fn) if isinstance(x, ast.For) and unparse(x.iter) == f"{ROLES.out_get}.read()"]
    cvar = unparse(consumer[0].target) if consumer else "i"
    # the consumer hands the outputs on: `yield i`, or `yield from <decoder>.filter([i])` when the workers encode their outputs
    ys = nodes_where(g, lambda n: n.kind == "stmt" and isinstance(n.ast, ast.Expr) and (
        (isinstance(n.ast.value, ast.Yield) and n.ast.value.value is not None and unparse(n.ast.value.value) == cvar) or
        (isinstance(n.ast.value, ast.YieldFrom) and any(isinstance(y, ast.Name) and y.id == cvar for y in ast.walk(n.ast.value.value)))))
    ctx.floor("C08.R4", "consumer yield sites", len(ys), 1)
    exits = {g.exit_return, g.exit_raise, g.exit_abandon}
    # failures *inside* the clean-up itself (a queue operation raising something other than Empty) are not part of
    # the obligation: ignore exception edges that leave a node of a finally body
    fin_nodes = set()
    for t in walk_shallow(fn):
        if isinstance(t, ast.Try) and t.finalbody:
            for s in t.finalbody:
                for x in walk_shallow(s):
                    fin_nodes.update(g.nodes_of(x))

    def edge_ok(a, b, label):
        return not (label == "exc" and a in fin_nodes and b in exits)

    for y in ys:
        for what, via in (("the loader is stopped", stops), ("the in-queue is drained", drains_in), ("the out-queue is drained", drains_out)):
            p = escape_path(g, y, via, exits, first_labels_skip=(), edge_ok=edge_ok)
            ctx.ob("C08.R4", PMP, "Multiprocessor.filter", g.nodes[y].ast, f"{what} on every way out of the consumer loop (end, error, abandonment)",
                   p is None and bool(via), detail=None if p is None else {"path": g.describe_path([y] + p)}, stmt=f"{what}")
    starts = nodes_where(g, lambda n: n.kind == "stmt" and has_call(n.ast, f"{ROLES.load_thread}.start"))
    for s in starts:
        p = escape_path(g, s, stops, exits, first_labels_skip=())
        ctx.ob("C08.R4", PMP, "Multiprocessor.filter", g.nodes[s].ast, "once the loader was started every exit passes the clean-up", p is None and bool(stops),
               detail=None if p is None else {"path": g.describe_path([s] + p)})
    # drains are loops that end only on Empty
    for nm in (ROLES.in_queue, ROLES.out_queue):
        ok = False
        for x in walk_shallow(fn):
            if isinstance(x, ast.Try) and any(isinstance(s, ast.While) and unparse(s.test) == "True" and f"{nm}.get_nowait()" in unparse(s) for s in x.body) \
                    and any(h.type is not None and unparse(h.type) == "Empty" for h in x.handlers):
                ok = True
        ctx.ob("C08.R4", PMP, "Multiprocessor.filter", fn, f"the {'in' if nm == ROLES.in_queue else 'out'}-queue is emptied until queue.Empty", ok, stmt=f"drain {'in' if nm == ROLES.in_queue else 'out'}-queue")
    st = ctx.fn(PMP, "Stopper.filter")
    ok = any(isinstance(x, ast.If) and unparse(x.test) == "self._stop" and any(isinstance(s, ast.Break) for s in x.body) for x in walk_shallow(st))
    ctx.ob("C08.R4", PMP, "Stopper.filter", st, "a stopped loader stops feeding items", ok, stmt="Stopper")


def r5_limit(ctx, fn):
    ctx.rule("C08.R5", "worker line: QueueSource(in) -> ... -> Unpickler -> Slice(None, maxtasksperchild) -> filter -> QueueSink(out)")
    call, parts = _line(fn, ROLES.filter_line)
    kinds = [unparse(v) if v is not None else n for n, v in parts]
    idx = {k.split("(")[0]: i for i, k in enumerate(kinds)}
    ok = call is not None and "Unpickler" in idx and "Slice" in idx and idx["Unpickler"] < idx["Slice"] and \
        any("self._filter" in k and i > idx["Slice"] for i, k in enumerate(kinds)) and kinds[idx["Slice"]] == "Slice(None, self._maxtasksperchild)"
    ctx.ob("C08.R5", PMP, "Multiprocessor.filter", call or fn, "the per-child limit counts unpickled items before they reach the filter", ok, detail={"pipeline": kinds}, stmt="filter_line order")
    init = ctx.fn(PMP, "Multiprocessor.__init__")
    st = [x for x in walk_shallow(init) if isinstance(x, ast.Assign) and any(is_self_attr(t, "_maxtasksperchild") for t in x.targets)]
    ctx.ob("C08.R5", PMP, "Multiprocessor.__init__", st[0] if st else init, "maxtasksperchild=0 means unlimited (None for the slice)",
           len(st) == 1 and unparse(st[0].value) == "maxtasksperchild or None", stmt="_maxtasksperchild")
    # "(and CobaMultiprocessor around it)": the limit travels unchanged from CobaMultiprocessor's constructor to Multiprocessor -- constant folding of
    # whatever the constructor stores, for the limits 1, 2, 3 and 7 (a normalisation may only touch values that mean "unlimited")
    CMPF = "coba/multiprocessing.py"
    cinit = ctx.fn(CMPF, "CobaMultiprocessor.__init__")
    cst = [x for x in walk_shallow(cinit) if isinstance(x, ast.Assign) and any(is_self_attr(t, "_maxtasksperchild") for t in x.targets)]
    okc = len(cst) == 1
    folded = {}
    if okc:
        for k_ in (1, 2, 3, 7):
            class Sub(ast.NodeTransformer):
                def visit_Name(self, node):
                    return ast.copy_location(ast.Constant(value=k_), node) if node.id == "maxtasksperchild" else node
            e = Sub().visit(ast.parse(unparse(cst[0].value), mode="eval").body)
            try:
                folded[k_] = eval(compile(ast.fix_missing_locations(ast.Expression(e)), "<limit>", "eval"), {"__builtins__": {}})   # constant folding
            except Exception:
                folded[k_] = "?"
        okc = all(folded[k_] == k_ for k_ in folded)
    ctx.ob("C08.R5", CMPF, "CobaMultiprocessor.__init__", cst[0] if cst else cinit, "every positive maxtasksperchild is stored as given (1 included)", okc, detail={"stored for": folded}, stmt="CobaMultiprocessor limit stored")
    cflt = ctx.fn(CMPF, "CobaMultiprocessor.filter")
    mps = [c for c in ast.walk(cflt) if isinstance(c, ast.Call) and call_name(c) == "Multiprocessor"]
    ctx.ob("C08.R5", CMPF, "CobaMultiprocessor.filter", mps[0] if mps else cflt, "Multiprocessor is built with the stored process count and limit", bool(mps) and all(
        len(c.args) >= 3 and unparse(c.args[1]) == "self._processes" and unparse(c.args[2]) == "self._maxtasksperchild" for c in mps), stmt="limit handed to Multiprocessor")
    sl = ctx.fn("coba/pipes/filters.py", "Slice.filter")
    ok = any(isinstance(x, ast.Return) and unparse(x.value) == "islice(items, self._start, self._stop, self._step)" for x in walk_shallow(sl))
    ctx.ob("C08.R5", "coba/pipes/filters.py", "Slice.filter", sl, "Slice(None, n) passes at most n items", ok, stmt="Slice.filter")
    c03.r6_pickled(ctx, rule="C08.R5")


def r6_inprocess(ctx, fn):
    ctx.rule("C08.R6", "the single-process arm applies Foreach(self._filter) to the items -- the same filter the workers apply")
    ok = False
    for x in walk_shallow(fn):
        if isinstance(x, ast.If) and unparse(x.test) == "self._max_processes == 1 and self._maxtasksperchild is None":
            ok = len(x.body) == 1 and unparse(x.body[0]) == "yield from Foreach(self._filter).filter(items)"
    ctx.ob("C08.R6", PMP, "Multiprocessor.filter", fn, "in-process arm: yield from Foreach(self._filter).filter(items)", ok, stmt="in-process arm")
    call, parts = _line(fn, ROLES.filter_line)
    ok = any((unparse(v) if v is not None else n) == "Safe(Foreach(self._filter))" for n, v in parts)
    ctx.ob("C08.R6", PMP, "Multiprocessor.filter", call or fn, "workers apply Foreach(self._filter) as well", ok, stmt="worker arm")
    fe = ctx.fn(PMP, "Foreach.filter")
    loops = [x for x in walk_shallow(fe) if isinstance(x, ast.For) and unparse(x.iter) == "items"]
    ok = False
    if len(loops) == 1:
        it = unparse(loops[0].target)
        OUT = name_bound(fe, lambda v: unparse(v) == f"self._pipe.filter({it})", "out")
        ys = [y for y in walk_shallow(loops[0]) if isinstance(y, ast.YieldFrom)]
        ok = bool(assigned_value(fe, OUT)) and len(ys) == 1 and unparse(ys[0].value) == OUT and not any(isinstance(x, (ast.Break, ast.Continue)) for x in walk_shallow(loops[0]))
    ctx.ob("C08.R6", PMP, "Foreach.filter", fe, "Foreach applies the filter item by item and yields every output", ok, stmt="Foreach")


def r8_report_channel(ctx):
    """The worker reports (exception, traceback, poisoned) to the parent through a one-shot Pipe.  For "the call terminates and raises that error" the
    report must always arrive: whatever the filter raised must be caught and sent, the send must not block for ever, and the parent must be able to
    rebuild what was sent."""
    ctx.rule("C08.R8", "the worker's failure report always arrives: (a) the parent receives the report before (or while) it waits for the worker to exit -- a report "
                       "larger than the pipe buffer otherwise blocks the child in send() while the parent blocks in join(); (b) what is sent can always be unpickled "
                       "(the exception is not sent as a bare object of an arbitrary user class); (c) every exception the filter can raise, BaseExceptions included, "
                       "reaches a handler that reports it")
    j = ctx.fn(LNS, "ProcessLine.join")
    order = [("join" if unparse(c.func) == "super().join" else "recv") for c in walk_shallow(j) if isinstance(c, ast.Call) and unparse(c.func) in ("super().join", "self._get_result")]
    ctx.ob("C08.R8", LNS, "ProcessLine.join", j, "the report is received before the parent waits for the worker process to exit", order[:1] == ["recv"], detail={"order": order}, stmt="receive before join")
    # ... and because the receive now comes first it has to wait for the report itself: the poll() that guards recv() is preceded, in its own block, by an
    # untimed wait([<the pipe>, self.sentinel]) -- report there, or worker gone (the parent's own write end keeps the pipe from ever signalling EOF)
    g = ctx.fn(LNS, "ProcessLine._get_result")
    recvs = [c for c in ast.walk(g) if isinstance(c, ast.Call) and call_tail(c) == "recv" and isinstance(c.func, ast.Attribute)]
    waited = []
    for c in recvs:
        pipe = unparse(c.func.value)
        found = False
        for n in ast.walk(g):
            for body in (getattr(n, "body", None), getattr(n, "orelse", None), getattr(n, "finalbody", None)):
                if not isinstance(body, list):
                    continue
                at = next((k for k, st in enumerate(body) if any(y is c for y in ast.walk(st))), None)
                if at is None:
                    continue
                found = found or any(isinstance(st, ast.Expr) and isinstance(st.value, ast.Call) and call_tail(st.value) == "wait" and len(st.value.args) == 1 and not st.value.keywords
                                     and isinstance(st.value.args[0], (ast.List, ast.Tuple)) and {pipe, "self.sentinel"} <= {unparse(e) for e in st.value.args[0].elts} for st in body[:at])
        waited.append(found)
    ctx.ob("C08.R8", LNS, "ProcessLine._get_result", enclosing_stmt(recvs[0]) if recvs else g, "a receive that precedes join() waits, untimed, until the worker has reported or has exited",
           order[:1] != ["recv"] or (bool(recvs) and all(waited)), detail={"receives": len(recvs), "waited": waited}, stmt="wait for report or exit")
    run_ = ctx.fn(LNS, "ProcessLine.run")
    sends = [c for c in walk_shallow(run_) if isinstance(c, ast.Call) and unparse(c.func) == "self._send.send"]
    ctx.floor("C08.R8", "report sends in ProcessLine.run", len(sends), 1)
    for c in sends:
        first = c.args[0].elts[0] if c.args and isinstance(c.args[0], ast.Tuple) else None
        raw = isinstance(first, ast.Name) and any(isinstance(x, ast.Assign) and any(isinstance(t, ast.Tuple) and unparse(t.elts[0]) == first.id for t in x.targets)
                                                   and isinstance(x.value, ast.Tuple) and isinstance(x.value.elts[0], ast.Name) for x in ast.walk(run_))
        # a bare exception object is fine when the worker has first proved that it can be rebuilt: a try that precedes the send in the same block whose body
        # round-trips the object (loads(dumps(<it>))) and whose handler (Exception or wider) rebinds the name to a repo / builtin exception built from text
        checked = False
        if raw:
            blk = next((body for n in ast.walk(run_) for body in (getattr(n, "body", None), getattr(n, "orelse", None), getattr(n, "finalbody", None))
                        if isinstance(body, list) and any(c in list(ast.walk(st)) for st in body)), [])
            idx = next((i for i, st in enumerate(blk) if c in list(ast.walk(st))), 0)
            for st in blk[:idx]:
                if not isinstance(st, ast.Try):
                    continue
                trips = any(isinstance(y, ast.Call) and call_tail(y) == "loads" and y.args and isinstance(y.args[0], ast.Call) and call_tail(y.args[0]) == "dumps"
                            and y.args[0].args and unparse(y.args[0].args[0]) == first.id for b_ in st.body for y in ast.walk(b_))
                wide = [h for h in st.handlers if h.type is None or unparse(h.type) in ("Exception", "BaseException")]
                rebinds = any(isinstance(x, ast.Assign) and [unparse(t) for t in x.targets] == [first.id] and isinstance(x.value, ast.Call)
                              and call_tail(x.value) in ("CobaException", "Exception", "RuntimeError") and x.value.args
                              and all(isinstance(a_, (ast.JoinedStr, ast.Constant)) or (isinstance(a_, ast.Call) and call_tail(a_) in ("str", "repr")) for a_ in x.value.args)
                              for h in wide for x in h.body)
                # nothing between the proof and the send may rebind the name
                later = any(isinstance(x, (ast.Assign, ast.AugAssign)) and first.id in {n.id for t in (x.targets if isinstance(x, ast.Assign) else [x.target]) for n in ast.walk(t) if isinstance(n, ast.Name)}
                            for st2 in blk[blk.index(st) + 1:idx] for x in ast.walk(st2))
                checked = checked or (trips and rebinds and not later)
        ctx.ob("C08.R8", LNS, "ProcessLine.run", c, "the exception is sent in a form the parent can always rebuild (a bare user exception object only after a pickle round trip in the worker proved it)", not raw or checked,
               detail={"sent": unparse(first) if first is not None else None}, stmt="report is always unpicklable")
    tries = [t for t in walk_shallow(run_) if isinstance(t, ast.Try)]
    caught = sorted({unparse(e) for t in tries for h in t.handlers for e in ((h.type.elts if isinstance(h.type, ast.Tuple) else [h.type]) if h.type is not None else [ast.Name("BaseException")])})
    ok = "BaseException" in caught or {"Exception", "KeyboardInterrupt", "SystemExit", "GeneratorExit"} <= set(caught)
    ctx.ob("C08.R8", LNS, "ProcessLine.run", tries[0] if tries else run_, "SystemExit / GeneratorExit raised by the filter are reported like any other exception", ok,
           detail={"caught": caught}, stmt="all BaseExceptions reported")
    # the loader runs as a ThreadLine over the caller's items: what the items raise -- a SystemExit / CobaExit included -- has to reach loader_finished_or_failed
    trun = ctx.fn(LNS, "ThreadLine.run")
    ttries = [t for t in walk_shallow(trun) if isinstance(t, ast.Try) and any(isinstance(y, ast.Call) and unparse(y.func) == "self._line.run" for b_ in t.body for y in ast.walk(b_))]
    tcaught = sorted({unparse(e) for t in ttries for h in t.handlers for e in ((h.type.elts if isinstance(h.type, ast.Tuple) else [h.type]) if h.type is not None else [ast.Name("BaseException")])})
    records = all(any(isinstance(x, ast.Assign) and any(is_self_attr(t_, "_exception") for t_ in x.targets) and isinstance(x.value, ast.Name) and x.value.id == (h.name or "") for x in ast.walk(h))
                  for t in ttries for h in t.handlers)
    ctx.ob("C08.R8", LNS, "ThreadLine.run", ttries[0] if ttries else trun, "every exception the items of the loader line raise, BaseExceptions included, is recorded on the line", bool(ttries) and "BaseException" in tcaught and records,
           detail={"caught": tcaught}, stmt="loader: all BaseExceptions recorded")


def peek_emptiness(ctx, rule, prefixes=("coba/",)):
    """`first, rest = peek_first(stream)`: an empty stream is recognised by `rest` (falsy when empty); the value of the first item says nothing
    (a legal first item may be None / 0 / '' / {})."""
    n = 0
    for (rel, qual), fn in sorted(ctx.model.functions.items()):
        if rel.startswith("coba/tests") or not rel.startswith(tuple(prefixes)):
            continue
        firsts = set()
        for x in walk_shallow(fn):
            if isinstance(x, ast.Assign) and isinstance(x.value, ast.Call) and call_name(x.value) == "peek_first" and isinstance(x.targets[0], ast.Tuple) \
                    and len(x.targets[0].elts) == 2 and isinstance(x.targets[0].elts[0], ast.Name) and not any(k.arg == "n" for k in x.value.keywords) and len(x.value.args) == 1:
                firsts.add(x.targets[0].elts[0].id)
                n += 1
        firsts.discard("_")
        if not firsts:
            continue
        for x in walk_shallow(fn):
            if isinstance(x, (ast.If, ast.IfExp, ast.While)):
                t = x.test
                bad = None
                for c in ast.walk(t):
                    if isinstance(c, ast.Compare) and len(c.ops) == 1 and isinstance(c.ops[0], (ast.Is, ast.IsNot, ast.Eq, ast.NotEq)) and isinstance(c.left, ast.Name) and c.left.id in firsts \
                            and isinstance(c.comparators[0], ast.Constant) and c.comparators[0].value is None:
                        bad = c
                    if isinstance(c, ast.UnaryOp) and isinstance(c.op, ast.Not) and isinstance(c.operand, ast.Name) and c.operand.id in firsts:
                        bad = c
                if isinstance(t, ast.Name) and t.id in firsts:
                    bad = t
                if bad is not None:
                    returns_empty = any(isinstance(r, ast.Return) for r in (ast.walk(x) if isinstance(x, ast.If) else []))
                    if returns_empty or isinstance(x, ast.IfExp):
                        ctx.ob(rule, rel, qual, x, "an empty stream is recognised by the stream peek_first returns, not by the value of the first item", False,
                               detail={"test": unparse(t)})
    return n


def r7_nothing_swallowed(ctx):
    ctx.rule("C08.R7", "no failure and no item disappears quietly: in ProcessLine.run / ThreadLine.run every handler around the line reports the exception it caught "
                       "(none of them reports None); CobaMultiprocessor.filter (and every other caller of peek_first) decides emptiness from the returned stream, "
                       "not from the first item's value")
    for qual in ("ProcessLine.run", "ThreadLine.run"):
        fn = ctx.fn(LNS, qual)
        tries = [t for t in walk_shallow(fn) if isinstance(t, ast.Try) and any(isinstance(c, ast.Call) and unparse(c.func) == "self._line.run" for st in t.body for c in ast.walk(st))]
        ctx.floor("C08.R7", f"try around self._line.run() in {qual}", len(tries), 1)
        for t in tries:
            for h in t.handlers:
                bound = h.name
                stores = [x for x in ast.walk(h) if isinstance(x, ast.Assign)]
                vals = []
                for x in stores:
                    for tg in x.targets:
                        if isinstance(tg, ast.Tuple) and isinstance(x.value, ast.Tuple) and len(tg.elts) == len(x.value.elts):
                            vals.append((unparse(tg.elts[0]), x.value.elts[0]))
                        elif not isinstance(tg, ast.Tuple):
                            vals.append((unparse(tg), x.value))
                sent = [c.args[0].elts[0].id for c in ast.walk(fn) if isinstance(c, ast.Call) and unparse(c.func) == "self._send.send" and c.args
                        and isinstance(c.args[0], ast.Tuple) and c.args[0].elts and isinstance(c.args[0].elts[0], ast.Name)]
                exs = [(n_, v) for n_, v in vals if n_ in set(sent) | {"self._exception"}]
                ok = bool(bound) and bool(exs) and all(not (isinstance(v, ast.Constant) and v.value is None) for _, v in exs)
                ctx.ob("C08.R7", LNS, qual, h, f"the handler for {unparse(h.type) if h.type else 'everything'} reports the exception it caught", ok,
                       detail={"reported": [unparse(v)[:60] for _, v in exs]}, stmt=f"{qual} handler {unparse(h.type) if h.type else '*'}")
    n = peek_emptiness(ctx, "C08.R7", prefixes=("coba/multiprocessing.py", "coba/pipes/"))
    ctx.floor("C08.R7", "peek_first unpackings examined", n, 1)
    cm = ctx.fn("coba/multiprocessing.py", "CobaMultiprocessor.filter")
    empties = [x for x in walk_shallow(cm) if isinstance(x, ast.If) and any(isinstance(r, ast.Return) for r in ast.walk(x))]
    rest = [x.targets[0].elts[1].id for x in walk_shallow(cm) if isinstance(x, ast.Assign) and isinstance(x.value, ast.Call) and call_name(x.value) == "peek_first" and isinstance(x.targets[0], ast.Tuple)]
    ok = bool(rest) and any(unparse(e.test) == f"not {rest[0]}" for e in empties)
    ctx.ob("C08.R7", "coba/multiprocessing.py", "CobaMultiprocessor.filter", empties[0] if empties else cm, "the early return for an empty stream tests the peeked stream", ok, stmt="empty stream test")


def r9_no_blocking_receive(ctx, rule="C08.R9"):
    """never hangs: the parent reads a worker's report pipe only when something is in it (a worker that died without reporting leaves the pipe
    empty and, because the parent holds the send end too, recv() would never see EOF)."""
    ctx.rule(rule, "no blocking receive on a worker's report pipe: in ProcessLine every <pipe>.recv() executed by the parent is dominated by a true <pipe>.poll() test "
                   "on the same pipe (a killed worker sends nothing and the parent's own send end keeps the pipe open)")
    from ..util import all_guards
    cls = ctx.model.cls(LNS, "ProcessLine")
    n = 0
    for name, fn in sorted(cls.methods.items()):
        if name == "run":
            continue   # runs in the worker
        for c in [c for c in walk_shallow(fn) if isinstance(c, ast.Call) and call_tail(c) == "recv" and isinstance(c.func, ast.Attribute)]:
            n += 1
            pipe = unparse(c.func.value)
            ok = any(pol and any(isinstance(y, ast.Call) and call_tail(y) == "poll" and isinstance(y.func, ast.Attribute) and unparse(y.func.value) == pipe and not y.args
                                 for y in ast.walk(t)) and not (isinstance(t, ast.UnaryOp) and isinstance(t.op, ast.Not))
                     for t, pol in all_guards(c, fn))
            ctx.ob(rule, LNS, f"ProcessLine.{name}", c, f"{pipe}.recv() happens only after {pipe}.poll() returned true", ok)
    ctx.floor(rule, "pipe receives in the parent-side methods of ProcessLine", n, 1)
    # ... and the parent keeps its own write end open until it has read the report: with that end closed early an unreported death of the worker turns the
    # empty pipe into EOF, poll() answers True and recv() raises EOFError inside the completion thread (the call then waits forever)
    closes = []
    for name, fn in sorted(cls.methods.items()):
        if name == "run":
            continue
        for c in [c for c in ast.walk(fn) if isinstance(c, ast.Call) and call_tail(c) == "close" and isinstance(c.func, ast.Attribute)]:
            tgt = unparse(c.func.value)
            if "send" in tgt.lower():
                closes.append((name, c))
    for name, c in closes:
        recvs = [r for r in ast.walk(cls.methods[name]) if isinstance(r, ast.Call) and call_tail(r) == "recv"]
        ctx.ob(rule, LNS, f"ProcessLine.{name}", c, "the parent's write end of the report pipe is closed only where the report is read, after the read", bool(recvs) and all(r.lineno < c.lineno for r in recvs))
    ctx.ob(rule, LNS, "ProcessLine", cls.node, "the report pipe's write end is closed somewhere on the parent side (no descriptor leak)", bool(closes), stmt="write end closed after the report")


CONTROLS = [
    ("the loader thread records Exceptions only", LNS, M.replace_stmt("ThreadLine.run", lambda st: isinstance(st, ast.Try), "try:\n    self._line.run()\nexcept Exception as e:\n    self._exception = e\n    self._traceback = format_tb(e.__traceback__)"), "C08.R8"),
    ("wait keys numbered by the size of the store", PMP, M.chain(M.replace_stmt("UniqueKey.__init__", M.text_has("self._n ="), "self._n = n"), M.replace_expr("MyProcessLine.start", "UniqueKey()", "UniqueKey(len(rw))")), "C08.R10"),
    ("wait keys from a counter read and then incremented", PMP, M.replace_stmt("UniqueKey.__init__", M.text_has("self._n ="), "self._n = UniqueKey.N\nUniqueKey.N += 1"), "C08.R10"),
    ("worker processes are not daemons", LNS, M.replace_expr("ProcessLine.__init__", "super().__init__(daemon=True)", "super().__init__(daemon=False)"), "C08.R11"),
    ("worker outputs written raw to the out-queue", PMP, M.replace_expr("Multiprocessor.filter", "SourceSink(in_get, setter, unpickler, get_max, Safe(Foreach(self._filter)), pickler, out_put)",
        "SourceSink(in_get, setter, unpickler, get_max, Safe(Foreach(self._filter)), out_put)"), "C08.R1"),
    ("limit of one child task read as unlimited", "coba/multiprocessing.py", M.replace_stmt("CobaMultiprocessor.__init__", M.text_has("self._maxtasksperchild ="), "self._maxtasksperchild = maxtasksperchild if maxtasksperchild > 1 else 0"), "C08.R5"),
    ("report read only after the worker exited", LNS, M.chain(M.delete_stmt("ProcessLine.join", M.text_has("self._get_result()")), M.insert_after("ProcessLine.join", M.text_has("super().join()"), "self._get_result()")), "C08.R8"),
    ("receive no longer waits for the report", LNS, M.delete_stmt("ProcessLine._get_result", M.text_has("wait([")), "C08.R8"),
    ("receive waits with a timeout", LNS, M.replace_expr("ProcessLine._get_result", "wait([self._recv, self.sentinel])", "wait([self._recv, self.sentinel], 1)"), "C08.R8"),
    ("report sent without the round-trip proof", LNS, M.delete_stmt("ProcessLine.run", lambda st: isinstance(st, ast.Try) and "loads(dumps(" in ast.unparse(st)), "C08.R8"),
    ("round-trip fallback keeps the object", LNS, M.replace_expr("ProcessLine.run", "CobaException(f'{type(ex).__name__}: {ex}')", "CobaException(ex)"), "C08.R8"),
    ("worker reports only KeyboardInterrupt besides Exception", LNS, M.replace_expr("ProcessLine.run", "BaseException", "KeyboardInterrupt"), "C08.R8"),
    ("parent closes its write end right after start", LNS, M.insert_after("ProcessLine.start", M.text_has("super().start()"), "send.close()"), "C08.R9"),
    ("report read without polling", LNS, M.replace_expr("ProcessLine._get_result", "self._recv.poll()", "True"), "C08.R9"),
    ("worker swallows EOFError of the filter", LNS, M.replace_stmt("ProcessLine.run", lambda st: isinstance(st, ast.Try),
        "try:\n    self._line.run()\nexcept (EOFError, BrokenPipeError):\n    ex, tb = None, None\nexcept Exception as e:\n    ex, tb = e, format_tb(e.__traceback__)\nexcept KeyboardInterrupt as e:\n    ex, tb = e, None\nelse:\n    ex, tb = None, None"), "C08.R7"),
    ("first item None means empty", "coba/multiprocessing.py", M.chain(M.replace_expr("CobaMultiprocessor.filter", "_", "first", nth=0), M.replace_expr("CobaMultiprocessor.filter", "not items", "first is None")), "C08.R7"),
    ("one pill only", PMP, M.replace_expr("Multiprocessor.filter", "[self._poison] * self._n_procs", "[self._poison]"), "C08.R2"),
    ("pill without zero test", PMP, M.replace_expr("Multiprocessor.filter", "self._n_procs == 0", "True"), "C08.R2"),
    ("swallow worker errors", PMP, M.replace_stmt("Multiprocessor.filter", M.text_has("if self._exceptions"), "pass", nth=0), "C08.R3"),
    ("no drain on abandon", PMP, M.replace_stmt("Multiprocessor.filter", M.text_has("self._load_stopper.stop()"), "pass"), "C08.R4"),
    ("limit after filter", PMP, M.replace_expr("Multiprocessor.filter",
        "SourceSink(in_get, setter, unpickler, get_max, Safe(Foreach(self._filter)), pickler, out_put)",
        "SourceSink(in_get, setter, unpickler, Safe(Foreach(self._filter)), get_max, pickler, out_put)"), "C08.R5"),
    ("in-process applies filter to whole stream", PMP, M.replace_expr("Multiprocessor.filter", "Foreach(self._filter).filter(items)", "self._filter.filter(items)"), "C08.R6"),
]
