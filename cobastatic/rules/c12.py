"""C12 -- reading dataset files (DESIGN.md 5/C12).

Decided: chunked delivery carries decoder / decompressor / line-splitter state across chunks, and
the DiskSink/DiskSource framing agrees; ARFF attribute-type keywords are exhaustive and
case-insensitive.  Not decided: tokenizer acceptance of every grammatical spelling.
"""
import ast

from ..absint import FlagEval, TOP
from ..model import walk_shallow, call_name, is_self_attr, dotted_name, parent, ancestors, enclosing_function
from ..util import canon
from ..util import (has_call, find_calls, assigned_value, const_str, unparse, kw, arg_or_kw, enclosing_stmt,
                    guards_of, call_tail, control_ancestors, name_bound, bound_names)
from .. import mutate as M

TECHNIQUE = 'static analysis: constant-folded decision table of the line splitter over character classes, incremental-decoder who-may-call rule, writer/reader predicate agreement (gz, terminator), ARFF keyword table, marker-position coverage rule'

EXPLANATION = ("Rules over HttpSource._byte_it_, DelimSource.read, DiskSink/DiskSource and ArffAttrReader._encoder: inside "
               "the per-chunk loop bytes are decompressed by an object and decoded by an incremental decoder both created "
               "outside the loop; the keep-pending test of the line splitter, constant-folded over the classes of the last "
               "character {CR, LF, other}, defers every proper prefix of a terminator and joins the pending text before "
               "re-splitting; writer and reader agree on the gz predicate, the single LF terminator and its stripping; the "
               "ARFF attribute types of the grammar each have a case-insensitive arm and the default arm raises.")
EXPLANATION += " R6: a bare '?' is recognised first, interior and last on the compacted line."
EXPLANATION += " R2 now folds all str.splitlines boundaries (VT, NEL, LS ...); R3 also: a truncating sink truncates once; R7: CsvReader parses with exactly the caller's dialect."

SRC = "coba/pipes/sources.py"
SNK = "coba/pipes/sinks.py"
RDR = "coba/pipes/readers.py"


def run(ctx):
    r1_stateful_chunks(ctx)
    r2_terminator_prefixes(ctx)
    r3_framing(ctx)
    r4_arff_keywords(ctx)
    r5_quote_symmetry(ctx)
    r5b_escape_agreement(ctx)
    r6_missing_positions(ctx)
    r7_csv_dialect(ctx)
    r8_line_producers(ctx)
    r9_stale_aliases(ctx)
    r10_sparse_tokens(ctx)
    r11_declared_level_order(ctx)
    r12_libsvm_tokens(ctx)
    r13_guarded_negative_positions(ctx)


def _nested(fn, name):
    for x in ast.walk(fn):
        if isinstance(x, ast.FunctionDef) and x.name == name and x is not fn:
            return x
    return None


def r13_guarded_negative_positions(ctx, rule="C12.R13"):
    """'Weka files are always accepted': the fallback parser splits on the delimiter first, so a quoted value that STARTS with the delimiter (',', or a row beginning ',') leaves
    a piece that is only the opening quote -- looking at its second to last character raises IndexError instead of re-joining the value."""
    ctx.rule(rule, "in the ARFF line parsers a loop / branch condition that looks at position [-2] (or [1]) of a piece first establishes that the piece is that long "
                   "(a len(..) comparison to its left in the same and/or chain)")
    n = 0
    for qual in ("ArffLineReader._dense_advanced", "ArffAttrReader._split"):
        if not ctx.model.has_func(RDR, qual):
            continue
        fn = ctx.fn(RDR, qual)
        for x in ast.walk(fn):
            if not isinstance(x, (ast.While, ast.If)):
                continue
            for sub in [y for y in ast.walk(x.test) if isinstance(y, ast.Subscript) and isinstance(y.slice, ast.UnaryOp) and isinstance(y.slice.op, ast.USub)
                        and isinstance(y.slice.operand, ast.Constant) and y.slice.operand.value >= 2]:
                n += 1
                subj = unparse(sub.value)
                t = x.test
                lens = [c for c in ast.walk(t) if isinstance(c, ast.Compare) and any(isinstance(k, ast.Call) and call_name(k) == "len" and unparse(k.args[0]) == subj for k in [c.left] + list(c.comparators))]
                before = any(c.lineno < sub.lineno or (c.lineno == sub.lineno and c.col_offset < sub.col_offset) for c in lens)
                ctx.ob(rule, RDR, qual, x, f"position {unparse(sub.slice)} of a piece is read only after its length was tested", before, detail={"piece": subj})
    ctx.floor(rule, "negative-position look-ups in parser conditions", n, 1)


def r1_stateful_chunks(ctx):
    ctx.rule("C12.R1", "HttpSource._byte_it_: inside the per-chunk loop the bytes are decoded by an incremental decoder and "
                       "decompressed by an object that were both created outside the loop (state survives chunk boundaries)")
    fn = ctx.fn(SRC, "HttpSource._byte_it_")
    ch = _nested(fn, "chunks")
    loops = [x for x in ast.walk(ch if ch is not None else fn) if isinstance(x, ast.While) and ".read(" in unparse(x.test)]
    ctx.floor("C12.R1", "per-chunk read loops", len(loops), 1)
    scope = ch if ch is not None else fn
    for lp in loops:
        decodes = [c for c in walk_shallow(lp) if isinstance(c, ast.Call) and call_tail(c) == "decode"]
        if not decodes:
            ctx.ob("C12.R1", SRC, "HttpSource._byte_it_", lp, "chunks are decoded to text inside the loop", False, stmt="no decode in chunk loop")
        for c in decodes:
            recv = c.func.value
            ok, why = False, "bytes.decode(charset) is stateless: a multi-byte character split over two chunks cannot be decoded"
            if isinstance(recv, ast.Name):
                vals = [v for v in assigned_value(scope, recv.id)] + [v for v in assigned_value(fn, recv.id)]
                inside = any(enclosing_stmt(v) in list(walk_shallow(lp)) for v in vals)
                if vals and not inside and all("getincrementaldecoder" in unparse(v) or "IncrementalDecoder" in unparse(v) for v in vals):
                    ok, why = True, "incremental decoder created outside the loop"
                elif inside:
                    why = "decoder is re-created for every chunk"
            ctx.ob("C12.R1", SRC, "HttpSource._byte_it_", c, "text decoding keeps its state across chunk boundaries", ok, detail={"why": why})
        # decompressor
        DECOMP = (bound_names(fn, lambda v: unparse(v).endswith(".decompress") or isinstance(v, ast.Lambda)) or ["decomp"])[0]
        dparam = "decomp"
        if ch is not None:
            # the nested generator receives the decompressor as its first parameter
            calls_ch = [c for c in walk_shallow(fn) if isinstance(c, ast.Call) and isinstance(c.func, ast.Name) and c.func.id == ch.name]
            if calls_ch and calls_ch[0].args and unparse(calls_ch[0].args[0]) == DECOMP and ch.args.args:
                dparam = ch.args.args[0].arg
        dcalls = [c for c in walk_shallow(lp) if isinstance(c, ast.Call) and isinstance(c.func, ast.Name) and c.func.id in (dparam, DECOMP)]
        dvals = assigned_value(fn, DECOMP)
        objs_outside = all(not any(enclosing_stmt(v) in list(walk_shallow(l2)) for l2 in loops) for v in dvals)
        shapes = [unparse(v) for v in dvals]
        ddefs = [x for x in ast.walk(fn) if isinstance(x, ast.FunctionDef) and x is not fn and x.name == DECOMP and not any(x in list(ast.walk(l2)) for l2 in loops)]
        # a decompressor is either <decompressobj>.decompress bound before the loop, or a local function (defined before the loop) that keeps its decompressobj
        # in state created at definition time (a default argument) -- never an object made per chunk without carrying the previous one's unused input
        n_objs = sum(1 for s_ in shapes if s_.startswith("zlib.decompressobj(") and s_.endswith(".decompress")) + len(ddefs)
        ok = bool(dcalls) and objs_outside and (len(dvals) + len(ddefs)) >= 3 and n_objs == 2
        for d_ in ddefs:
            state_defaults = [dflt for dflt in d_.args.defaults if "decompressobj" in unparse(dflt)]
            ok = ok and bool(state_defaults)
        ctx.ob("C12.R1", SRC, "HttpSource._byte_it_", dcalls[0] if dcalls else lp, "one decompressor (created before the loop) is fed every chunk", ok,
               detail={"decomp": shapes + [f"def {d_.name}(...)" for d_ in ddefs]})
        # gzip bodies may hold several members: the gzip decompressor continues with a new object on the unused input when a member ends
        gz_direct = [s_ for s_ in shapes if s_.startswith("zlib.decompressobj(16") and s_.endswith(".decompress")]
        gz_defs = [d_ for d_ in ddefs if "16" in unparse(d_)]
        multi = bool(gz_defs) and not gz_direct and all(any(isinstance(y, ast.Attribute) and y.attr == "unused_data" for y in ast.walk(d_)) and any(isinstance(y, ast.Attribute) and y.attr == "eof" for y in ast.walk(d_))
                                                        and any(isinstance(y, ast.While) for y in ast.walk(d_)) for d_ in gz_defs)
        ctx.ob("C12.R1", SRC, "HttpSource._byte_it_", (gz_defs or [fn])[0], "the gzip decompressor reads every member of a multi-member body (continues on unused_data after a member's end)", multi,
               stmt="multi-member gzip")
        if ch is not None:
            # a final flush of the decoder after the loop
            pass
    # after the loop an incremental decoder must be flushed, otherwise a truncated tail is silently dropped (informational)
    DECOMP = (bound_names(fn, lambda v: unparse(v).endswith(".decompress") or isinstance(v, ast.Lambda)) or ["decomp"])[0]
    whole = [x for x in walk_shallow(fn) if isinstance(x, ast.Return) and ".read()" in unparse(x) and "DelimSource" not in unparse(x)]
    okw = len(whole) == 1 and isinstance(whole[0].value, ast.Call) and call_tail(whole[0].value) == "decode" and [unparse(a) for a in whole[0].value.args] == ["charset"] \
        and isinstance(whole[0].value.func.value, ast.Call) and unparse(whole[0].value.func.value.func) == DECOMP and unparse(whole[0].value.func.value.args[0]).endswith(".read()")
    ctx.ob("C12.R1", SRC, "HttpSource._byte_it_", whole[0] if whole else fn, "the un-chunked arm decodes the whole body at once", okw, stmt="whole-body arm")
    rets = [x for x in walk_shallow(fn) if isinstance(x, ast.Return) and "DelimSource(" in unparse(x)]
    ctx.ob("C12.R1", SRC, "HttpSource._byte_it_", rets[0] if rets else fn, "chunked text is re-split into lines by DelimSource",
           len(rets) == 1 and unparse(rets[0].value) == f"DelimSource(IterableSource(chunks({DECOMP}, charset, chunk, bites))).read()", stmt="chunks -> DelimSource")


def r2_terminator_prefixes(ctx):
    ctx.rule("C12.R2", "DelimSource.read (line mode): the keep-pending decision, constant-folded over the last character classes "
                       "{CR, LF, other line boundaries of str.splitlines (VT, NEL, LS), ordinary character}, defers an unterminated tail AND a trailing CR (proper prefix of CRLF) and nothing else; pending text is "
                       "joined to the next chunk before it is split again")
    fn = ctx.fn(SRC, "DelimSource.read")
    arm = None
    SPLIT = name_bound(fn, lambda v: unparse(v) == "not self._delim", "split_lines")
    PENDING = name_bound(fn, lambda v: isinstance(v, ast.Constant) and v.value is None, "pending")
    for x in fn.body:
        if isinstance(x, ast.If) and unparse(x.test) == SPLIT:
            arm = x
    if arm is None:
        ctx.ob("C12.R2", SRC, "DelimSource.read", fn, "line-splitting arm exists", False, stmt="split_lines arm")
        return
    loops = [x for x in arm.body if isinstance(x, ast.For)]
    ctx.floor("C12.R2", "chunk loop of the line-splitting arm", len(loops), 1)
    lp = loops[0]
    tv = unparse(lp.target)
    defer_sites = [x for x in walk_shallow(lp) if isinstance(x, ast.Assign) and unparse(x.targets[0]) == PENDING and unparse(x.value) != "None"]
    for cls, ch, need in (("CR", "\r", True), ("LF", "\n", False), ("other", "x", True), ("VT", "\x0b", False), ("NEL", "\x85", False), ("LS", "\u2028", False)):
        fe = FlagEval({f"{tv}[-1]": ch}, opaque=lambda e: TOP)
        deferred = False
        for s in defer_sites:
            conds = guards_of(s, lp)
            res = [fe.test(t) if fe.test(t) is None else (fe.test(t) == pol) for t, pol in conds]
            if all(r is True for r in res if r is not None) and not any(r is False for r in res):
                # every guard that mentions the last character holds (guards on `pending` itself are state, not class)
                if any(f"{tv}[-1]" in unparse(t) for t, _ in conds):
                    deferred = True
        if need:
            ctx.ob("C12.R2", SRC, "DelimSource.read", lp, f"a chunk ending in {cls} keeps its tail pending", deferred,
                   stmt=f"defer on trailing {cls}", detail={"defer_conditions": [[unparse(t) + ("" if p else " (negated)") for t, p in guards_of(s, lp)] for s in defer_sites]})
        else:
            ctx.ob("C12.R2", SRC, "DelimSource.read", lp, f"a chunk ending in {cls} (a line boundary for splitlines) releases all its lines", not deferred, stmt=f"no defer on {cls}", trivial=True)
    # join-before-split
    joins = [x for x in walk_shallow(lp) if isinstance(x, ast.Assign) and f"{PENDING} +" in unparse(x.value)]
    splits = [x for x in walk_shallow(lp) if isinstance(x, ast.Assign) and ".splitlines(" in unparse(x.value)]
    ok = bool(joins) and bool(splits) and all(unparse(j.targets[0]).split(",")[0].strip("( ") == tv for j in joins) and min(j.lineno for j in joins) < min(s.lineno for s in splits)
    ctx.ob("C12.R2", SRC, "DelimSource.read", joins[0] if joins else lp,
           "pending text is prepended to the chunk before splitlines() (so a CR|LF pair split over two chunks is seen as one terminator)", ok,
           stmt="join before split", detail={"join": [unparse(j) for j in joins], "split": [unparse(s) for s in splits]})
    tail = [x for x in fn.body if isinstance(x, ast.If) and f"{PENDING} is not None" in unparse(x.test) and any(isinstance(y, ast.Yield) for y in walk_shallow(x))]
    ctx.ob("C12.R2", SRC, "DelimSource.read", tail[0] if tail else fn, "a pending tail is emitted at the end of the stream", bool(tail), stmt="flush pending")


def gz_predicate(ctx, rule):
    enter = ctx.fn(SNK, "DiskSink.__enter__")
    rd = ctx.fn(SRC, "DiskSource.read")
    wp = [unparse(x.test) for x in walk_shallow(enter) if isinstance(x, (ast.If, ast.IfExp)) and "gz" in unparse(x.test)]
    rp = [unparse(x.test) for x in walk_shallow(rd) if isinstance(x, (ast.If, ast.IfExp)) and "gz" in unparse(x.test)]
    norm = lambda s: s.replace("self._filename", "P").replace("self._path", "P")
    ok = len(wp) == 1 and len(rp) == 1 and norm(wp[0]) == norm(rp[0])
    ctx.ob(rule, SNK, "DiskSink.__enter__", enter, "writer and reader choose gzip by the same predicate on the path", ok, detail={"writer": wp, "reader": rp}, stmt="gz predicate")
    # third site: the torn-tail repair of experiments/core.py (the function that truncates the result file)
    EXPC = "coba/experiments/core.py"
    for (rel, qual), f_ in sorted(ctx.model.functions.items()):
        if rel == EXPC and any(isinstance(c, ast.Call) and isinstance(c.func, ast.Attribute) and c.func.attr == "truncate" for c in ast.walk(f_)) and f_.args.args:
            P_ = f_.args.args[0].arg
            hp = [unparse(x.test).replace(P_, "P") for x in ast.walk(f_) if isinstance(x, (ast.If, ast.IfExp)) and "gz" in unparse(x.test)]
            ctx.ob(rule, EXPC, qual, f_, "the repair of a torn result file chooses gzip by the writer's predicate", len(hp) == 1 and len(wp) == 1 and hp[0] == norm(wp[0]) and ok, detail={"repair": hp, "writer": wp}, stmt="gz predicate of the repair")


def r8_line_producers(ctx, rule="C12.R8"):
    """the readers iterate what a source yields as LINES: a source whose read() may answer with one string (HttpSource without chunk size returns
    the decoded body) must be split before it reaches them -- iterating a str yields its characters."""
    ctx.rule(rule, "line producers: UrlSource (what ArffSource/CsvSource/LibsvmSource/ManikSource read from) returns lines for every scheme -- the answer of an HttpSource built "
                   "without chunk size (one str) is split with splitlines(), the same boundary set the chunked path uses, or the HttpSource is given a chunk size")
    cls = ctx.model.cls(SRC, "UrlSource")
    init, rd = cls.methods["__init__"], cls.methods["read"]
    https = [c for c in ast.walk(init) if isinstance(c, ast.Call) and call_name(c) == "HttpSource"]
    ctx.floor(rule, "HttpSource constructions in UrlSource", len(https), 1)
    chunked = all(len(c.args) >= 2 or kw(c, "chunk_size") is not None for c in https)
    # HttpSource._byte_it_: the un-chunked arm returns a str
    bi = ctx.fn(SRC, "HttpSource._byte_it_")
    str_arm = [r for r in ast.walk(bi) if isinstance(r, ast.Return) and isinstance(r.value, ast.Call) and call_tail(r.value) == "decode"]
    ctx.note(f"{rule}: HttpSource._byte_it_ has {len(str_arm)} arm(s) returning the decoded body as one str")
    rets = [r for r in walk_shallow(rd) if isinstance(r, ast.Return) and r.value is not None]
    ok = False
    for r in rets:
        v = r.value
        if isinstance(v, ast.IfExp) and isinstance(v.body, ast.Call) and call_tail(v.body) == "splitlines" and not v.body.args:
            X = unparse(v.body.func.value)
            t = v.test
            if isinstance(t, ast.Call) and call_name(t) == "isinstance" and unparse(t.args[0]) == X and unparse(t.args[1]) == "str" and unparse(v.orelse) == X:
                ok = True
        if isinstance(v, ast.Call) and call_tail(v) == "read" and isinstance(v.func.value, ast.Call) and call_name(v.func.value) == "DelimSource":
            ok = True
    ctx.ob(rule, SRC, "UrlSource.read", rets[0] if rets else rd, "a one-string answer of the inner source is split into lines before it is handed to the readers", ok or chunked or not str_arm,
           detail={"HttpSource given a chunk size": chunked}, stmt="UrlSource yields lines")


def r9_stale_aliases(ctx, rule="C12.R9"):
    """alias staleness: a local bound to a parser-state attribute (`q = self._quotechar`) must not be consulted after the method itself re-assigned that attribute."""
    from ..cfg import CFG
    from ..util import escape_path, node_ast_for_effects
    ctx.rule(rule, "no stale copy of the parser state: in the ARFF/CSV reader methods, a local that aliases a self attribute is not read on any path after the method stored a new value "
                   "into that attribute without re-binding the local (reaching definitions on the CFG) -- the quote character settled by the first test of a row is the one the next test sees")
    n = 0
    for c in ctx.model.classes:
        if c.rel != RDR:
            continue
        for name, fn in sorted(c.methods.items()):
            aliases = {}
            for st in walk_shallow(fn):
                if isinstance(st, ast.Assign) and len(st.targets) == 1 and isinstance(st.targets[0], ast.Name) and is_self_attr(st.value):
                    aliases[st.targets[0].id] = st.value.attr
            if not aliases:
                continue
            g = None
            for X, A in sorted(aliases.items()):
                stores = [x for x in walk_shallow(fn) if isinstance(x, ast.Assign) and any(is_self_attr(t, A) for t in x.targets)]
                if not stores:
                    continue
                g = g or CFG(fn)
                rebind = {nd.id for nd in g.nodes if nd.kind == "stmt" and isinstance(nd.ast, ast.Assign) and any(isinstance(t, ast.Name) and t.id == X for t in nd.ast.targets)}
                reads = {nd.id for nd in g.nodes if node_ast_for_effects(nd) is not None and nd.id not in rebind and
                         any(isinstance(y, ast.Name) and y.id == X and isinstance(y.ctx, ast.Load) for y in ast.walk(node_ast_for_effects(nd)))}
                for st in stores:
                    for sid in g.stmt_nodes.get(id(st), []):
                        n += 1
                        p_ = escape_path(g, sid, rebind, reads, first_labels_skip=("exc", "abandon"), skip_labels=("exc", "abandon"))
                        ctx.ob(rule, RDR, f"{c.name}.{name}", st, f"after self.{A} is re-assigned the local copy `{X}` is re-bound before it is read again", p_ is None,
                               detail=None if p_ is None else {"stale read path": g.describe_path(p_)})
    ctx.floor(rule, "re-assignments of aliased parser state", n, 2)


def r10_sparse_tokens(ctx, rule="C12.R10"):
    """sparse ARFF rows: a quoted value may hold the very characters the row is split on."""
    from ..util import all_guards
    ctx.rule(rule, "ArffLineReader._sparse splits a row on blanks/commas only when the row holds no quote character (the guard is a test of both quote characters on the row); "
                   "rows with quotes go through a tokenising pattern whose coverage of the whole row is checked (fullmatch) and a row it does not cover is rejected -- never silently mis-split")
    fn = ctx.fn(RDR, "ArffLineReader._sparse")
    L = fn.args.args[1].arg
    n = 0

    def quote_test(t):
        cs = {const_str(c.left) for c in ast.walk(t) if isinstance(c, ast.Compare) and len(c.ops) == 1 and isinstance(c.ops[0], ast.In) and unparse(c.comparators[0]) == L}
        return {"'", '"'} <= cs
    for c in [c for c in ast.walk(fn) if isinstance(c, ast.Call) and call_tail(c) == "split" and (call_name(c) in ("re.split",) or isinstance(c.func, ast.Attribute))]:
        n += 1
        gs = all_guards(c, fn)
        ok = any((not pol) and quote_test(t) for t, pol in gs) or any((not pol) and isinstance(t, ast.Compare) and const_str(t.left) in ("'", '"') for t, pol in gs) and \
            {const_str(t.left) for t, pol in gs if not pol and isinstance(t, ast.Compare)} >= {"'", '"'}
        ctx.ob(rule, RDR, "ArffLineReader._sparse", c, "the row is split on blanks and commas only when it holds no quote character", ok)
    ctx.floor(rule, "separator splits in ArffLineReader._sparse", n, 1)
    fm = [c for c in ast.walk(fn) if isinstance(c, ast.Call) and call_tail(c) == "fullmatch"]
    ok = False
    for c in fm:
        st = enclosing_stmt(c)
        ok = ok or (isinstance(st, ast.If) and isinstance(st.test, ast.UnaryOp) and isinstance(st.test.op, ast.Not) and any(isinstance(x, ast.Raise) for x in st.body))
    ctx.ob(rule, RDR, "ArffLineReader._sparse", fm[0] if fm else fn, "a row with quotes that the tokenising pattern does not cover completely is rejected", ok, stmt="quoted sparse row validated")
    # unquoting removes exactly the delimiting pair: a slice [1:-1]; str.strip(<quote>) removes RUNS (a value ending in an escaped quote loses it and keeps the backslash)
    strips = [c for f_ in ctx.model.cls(RDR, "ArffLineReader").methods.values() for c in ast.walk(f_) if isinstance(c, ast.Call) and call_tail(c) in ("strip", "lstrip", "rstrip") and c.args and
              (const_str(c.args[0]) in ("'", '"', "'\"", "\"'") or (isinstance(c.args[0], ast.Subscript) and unparse(c.args[0].slice) in ("0", "-1")) or "quote" in unparse(c.args[0]).lower())]
    ctx.ob(rule, RDR, "ArffLineReader", (strips or [fn])[0], "quoted values are unquoted by cutting exactly one character at each end, never by str.strip on the quote character", not strips,
           detail={"strip calls": [unparse(c) for c in strips]}, stmt="unquote by slice")


def r11_declared_level_order(ctx, rule="C12.R11"):
    """CategoricalEncoder keeps the given order only for a duplicate-free list (a list with duplicates is sorted): the reader must not create duplicates."""
    from ..util import all_guards
    ctx.rule(rule, "declared level order: the level list ArffAttrReader hands to CategoricalEncoder is the declared list, and the reader's own extra level for sparse data ('0') is "
                   "put in front only when the attribute does not declare it (a duplicate makes CategoricalEncoder sort the levels); CategoricalEncoder sorts only lists with duplicates")
    enc = ctx.fn(RDR, "ArffAttrReader._encoder")
    adds = [st for st in ast.walk(enc) if isinstance(st, ast.Assign) and isinstance(st.value, ast.BinOp) and isinstance(st.value.op, ast.Add) and isinstance(st.value.left, ast.List)
            and len(st.value.left.elts) == 1 and isinstance(st.value.right, ast.Name)]
    ctx.floor(rule, "reader-added levels in ArffAttrReader._encoder", len(adds), 1)
    for st in adds:
        lvl, lst = unparse(st.value.left.elts[0]), st.value.right.id
        ok = any(pol and canon(unparse(t)) == canon(f"{lvl} not in {lst}") for t, pol in all_guards(st, enc))
        ctx.ob(rule, RDR, "ArffAttrReader._encoder", st, f"the extra level {lvl} is added only when the declared levels lack it", ok)
    ce = ctx.fn("coba/encodings.py", "CategoricalEncoder.__init__")
    sorts = [st for st in ast.walk(ce) if isinstance(st, ast.Assign) and any(isinstance(t, ast.Name) and t.id == "values" for t in st.targets) and "sorted" in unparse(st.value)]
    okc = all(any(pol and "len(" in unparse(t) and "!=" in unparse(t) for t, pol in all_guards(st, ce)) for st in sorts)
    ctx.ob(rule, "coba/encodings.py", "CategoricalEncoder.__init__", sorts[0] if sorts else ce, "CategoricalEncoder re-orders the given levels only when they contain duplicates", okc, stmt="encoder keeps a duplicate-free order")


def r12_libsvm_tokens(ctx, rule="C12.R12"):
    ctx.rule(rule, "LibSVM/Manik lines are tokenised on whitespace as the format's own reader does (any run of blanks or tabs): the line is split with the argument-less str.split(), "
                   "never on one fixed separator character (a tab separated line would be one token, taken for a label-less line and dropped)")
    fn = ctx.fn(RDR, "LibsvmReader.filter")
    L = [x.target.id for x in walk_shallow(fn) if isinstance(x, ast.For) and isinstance(x.target, ast.Name)]
    splits = [c for c in ast.walk(fn) if isinstance(c, ast.Call) and call_tail(c) == "split" and isinstance(c.func, ast.Attribute)
              and any(isinstance(y, ast.Name) and y.id in L for y in ast.walk(c.func.value))]
    ctx.floor(rule, "line splits in LibsvmReader.filter", len(splits), 1)
    for c in splits:
        ctx.ob(rule, RDR, "LibsvmReader.filter", c, "the line is split on any whitespace", not c.args and not c.keywords)


def _fold_mode_after_exit(fn, mode):
    """value of self._mode after DiskSink.__exit__ closed the file, by constant folding of the statements that assign it (tests and values may only
    use self._mode, literals, slicing, comparison, concatenation and pure str methods); None when something else is involved."""
    class Sub(ast.NodeTransformer):
        def visit_Attribute(self, node):
            if is_self_attr(node, "_mode"):
                return ast.copy_location(ast.Constant(value=cur[0]), node)
            return self.generic_visit(node)

    def fold(e):
        e2 = Sub().visit(ast.parse(unparse(e), mode="eval").body)
        for y in ast.walk(e2):
            if isinstance(y, ast.Name) or (isinstance(y, ast.Call) and not (isinstance(y.func, ast.Attribute) and y.func.attr in ("startswith", "endswith", "replace", "lstrip", "rstrip", "strip"))):
                raise ValueError(unparse(e))
        return eval(compile(ast.fix_missing_locations(ast.Expression(e2)), "<fold>", "eval"), {"__builtins__": {}})
    cur = [mode]

    def run(body):
        for st in body:
            if isinstance(st, ast.If):
                uses_mode = any(is_self_attr(y, "_mode") for y in ast.walk(st))
                if not uses_mode:
                    continue
                if any(is_self_attr(y, "_mode") for y in ast.walk(st.test)):
                    run(st.body if fold(st.test) else st.orelse)
                else:
                    run(st.body)   # e.g. `if self._count == 0 and self._file is not None:` -- the closing path
                    continue
            elif isinstance(st, ast.Assign) and any(is_self_attr(t, "_mode") for t in st.targets):
                cur[0] = fold(st.value)
    try:
        run(fn.body)
    except Exception:
        return None
    return cur[0]


def r3_framing(ctx):
    ctx.rule("C12.R3", "DiskSink and DiskSource agree: same '.gz' predicate on the path, one LF appended per line, the reader strips the terminator")
    gz_predicate(ctx, "C12.R3")
    rd = ctx.fn(SRC, "DiskSource.read")
    wr = ctx.fn(SNK, "DiskSink.write")
    wcalls = [c for c in walk_shallow(wr) if isinstance(c, ast.Call) and unparse(c.func) == "self._file.write"]
    lps = [a for a in ancestors(wcalls[0]) if isinstance(a, ast.For)] if wcalls else []
    LV = unparse(lps[0].target) if lps else "line"
    ok = len(wcalls) == 1 and unparse(wcalls[0].args[0]) == f"({LV} + '\\n').encode('utf-8')"
    ctx.ob("C12.R3", SNK, "DiskSink.write", wcalls[0] if wcalls else wr, "each line is written as utf-8 bytes followed by exactly one LF", ok)
    # batched writing re-opens the file once per batch (`with self` inside the loop): a truncating mode may only apply to the first open
    snk = ctx.model.cls(SNK, "DiskSink")
    reopen = [w for w in ast.walk(wr) if isinstance(w, ast.With) and unparse(w.items[0].context_expr) == "self" and any(isinstance(a, (ast.While, ast.For)) for a in ancestors(w))]
    downgrade = [x for m_, f in snk.methods.items() if m_ != "__init__" for x in ast.walk(f) if isinstance(x, ast.Assign) and any(is_self_attr(t, "_mode") for t in x.targets)
                 and "'a'" in unparse(x.value)]
    ctx.ob("C12.R3", SNK, "DiskSink.write", reopen[0] if reopen else wr, "a sink opened with a truncating mode truncates once: after the first close the mode is downgraded to append "
           "(the file is re-opened for every batch)", (not reopen) or bool(downgrade), stmt="truncate once")
    # constant folding of the downgrade for every truncating mode the constructor accepts ('w', 'w+'): the mode after the first close no longer truncates
    # and keeps its other flags; appending modes are left alone
    ex = snk.methods.get("__exit__")
    if reopen and ex is not None:
        for m0 in ("w", "w+", "a", "a+"):
            after = _fold_mode_after_exit(ex, m0)
            want = "a" + m0[1:]
            ctx.ob("C12.R3", SNK, "DiskSink.__exit__", downgrade[0] if downgrade else ex, f"a sink constructed with mode {m0!r} re-opens with mode {want!r} after its first close "
                   "(no second truncation, same read/write flags)", after == want, detail={"mode after first close": after}, stmt=f"mode {m0} after close")
    strips = [c for c in walk_shallow(rd) if isinstance(c, ast.Call) and call_tail(c) in ("rstrip", "strip")]
    RL = (bound_names(rd, lambda v: isinstance(v, ast.Call) and call_tail(v) == "readline") or ["line"])[0]
    ok = len(strips) == 1 and unparse(strips[0]) == f"{RL}.rstrip('\\r\\n')"
    ctx.ob("C12.R3", SRC, "DiskSource.read", strips[0] if strips else rd, "the reader strips only the line terminator", ok)
    loopc = [x for x in walk_shallow(rd) if isinstance(x, ast.While)]
    ok = len(loopc) == 1 and unparse(loopc[0].test) == f"{RL} != ''"
    ctx.ob("C12.R3", SRC, "DiskSource.read", loopc[0] if loopc else rd, "reading stops only at end of file (an empty line is '\\n', not '')", ok, stmt="eof test")
    init = ctx.fn(SRC, "DiskSource.__init__")
    names = [a.arg for a in init.args.args]
    mode = None
    if "mode" in names:
        i = names.index("mode") - (len(names) - len(init.args.defaults))
        mode = const_str(init.args.defaults[i]) if 0 <= i < len(init.args.defaults) else None
    ctx.note(f"C12.R3 (information): DiskSource opens in mode {mode!r} without an explicit encoding -> the platform's locale decoding, "
             "while DiskSink always writes utf-8; not armed (no failing configuration can be produced in this sandbox, whose locale is UTF-8)")


def r4_arff_keywords(ctx):
    ctx.rule("C12.R4", "ArffAttrReader._encoder: numeric/integer/real, string/date/relational and {nominal} each have an arm, "
                       "keywords are matched case-insensitively, the default arm raises")
    fn = ctx.fn(RDR, "ArffAttrReader._encoder")
    consts = {}
    for x in walk_shallow(fn):
        if isinstance(x, ast.Assign) and isinstance(x.value, ast.Tuple) and isinstance(x.targets[0], ast.Name):
            consts[x.targets[0].id] = [const_str(e) for e in x.value.elts]
    allk = sorted(k for v in consts.values() for k in v if k)
    need = ["date", "integer", "numeric", "real", "relational", "string"]
    ctx.ob("C12.R4", RDR, "ArffAttrReader._encoder", fn, "all ARFF attribute type keywords are listed", allk == need, detail={"listed": allk, "grammar": need}, stmt="keyword tables")
    chain_ifs = []
    cur = next((s for s in fn.body if isinstance(s, ast.If)), None)
    while isinstance(cur, ast.If):
        chain_ifs.append(cur)
        nxt = cur.orelse
        cur = nxt[0] if len(nxt) == 1 and isinstance(nxt[0], ast.If) else None
        last_else = nxt
    ctx.floor("C12.R4", "arms of _encoder", len(chain_ifs), 3)
    for arm in chain_ifs:
        t = unparse(arm.test)
        uses_table = any(k in t for k in consts)
        if uses_table:
            ctx.ob("C12.R4", RDR, "ArffAttrReader._encoder", arm, "keyword arm compares the lower-cased type", ".lower()" in t, stmt="arm " + t)
        else:
            ctx.ob("C12.R4", RDR, "ArffAttrReader._encoder", arm, "nominal arm is recognised by its opening brace", t == "encoding.startswith('{')", stmt="arm " + t)
    ok = bool(chain_ifs) and any(isinstance(s, ast.Raise) for s in last_else)
    ctx.ob("C12.R4", RDR, "ArffAttrReader._encoder", chain_ifs[-1] if chain_ifs else fn, "an unknown attribute type is rejected with an exception", ok, stmt="default arm raises")
    flt = ctx.fn(RDR, "ArffAttrReader.filter")
    lps = [x for x in walk_shallow(flt) if isinstance(x, ast.For) and unparse(x.iter) == "lines"]
    LV = unparse(lps[0].target) if lps else "line"
    ok = any(isinstance(x, ast.Compare) and unparse(x) == f"{LV}[0:10].lower() == '@attribute'" for x in walk_shallow(flt))
    ctx.ob("C12.R4", RDR, "ArffAttrReader.filter", flt, "@attribute is matched case-insensitively", ok, stmt="@attribute keyword")


def r5_quote_symmetry(ctx):
    ctx.rule("C12.R5", "ArffLineReader._dense_simple treats the two quote characters symmetrically: each has its own independent `if <q> in line` block "
                       "and the two blocks are identical up to the quote character (sibling cross-check)")
    fn = ctx.fn(RDR, "ArffLineReader._dense_simple")
    blocks = []
    for st in fn.body:
        if isinstance(st, ast.If) and isinstance(st.test, ast.Compare) and isinstance(st.test.ops[0], ast.In) and const_str(st.test.left) in ('"', "'") \
                and unparse(st.test.comparators[0]) == "line":
            blocks.append((const_str(st.test.left), st))
    nested = [x for x in walk_shallow(fn) if isinstance(x, ast.If) and isinstance(x.test, ast.Compare) and isinstance(x.test.ops[0], ast.In)
              and const_str(x.test.left) in ('"', "'") and unparse(x.test.comparators[0]) == "line"]
    ctx.floor("C12.R5", "quote tests in _dense_simple", len(nested), 2)
    ok = len(blocks) == 2 and {q for q, _ in blocks} == {'"', "'"} and len(nested) == 2
    if ok:
        import copy

        def norm(q, st):
            c = copy.deepcopy(st)
            for n in ast.walk(c):
                if isinstance(n, ast.Constant) and n.value == q:
                    n.value = "Q"
                if hasattr(n, "_parent"):
                    del n._parent
            return ast.unparse(c)
        ok = norm(*blocks[0]) == norm(*blocks[1]) and not blocks[0][1].orelse and not blocks[1][1].orelse
    ctx.ob("C12.R5", RDR, "ArffLineReader._dense_simple", blocks[0][1] if blocks else fn, "double and single quotes are each checked on every line, by identical logic", ok,
           detail={"independent_blocks": [q for q, _ in blocks], "quote_tests_found": len(nested)}, stmt="quote blocks")


def r5b_escape_agreement(ctx, rule="C12.R5"):
    """the header parser and the row parser un-escape quoted text the same way: a backslash escapes the next character."""
    sp = ctx.fn(RDR, "ArffAttrReader._split")
    strips_all = [c for c in ast.walk(sp) if isinstance(c, ast.Call) and call_tail(c) == "replace" and len(c.args) == 2 and const_str(c.args[0]) == "\\" and const_str(c.args[1]) == ""]
    subs = [c for c in ast.walk(sp) if isinstance(c, ast.Call) and call_name(c) in ("re.sub", "sub") and len(c.args) >= 3 and const_str(c.args[0]) == "\\\\(.)" and const_str(c.args[1]) == "\\1"]
    ctx.ob(rule, RDR, "ArffAttrReader._split", (strips_all or subs or [sp])[0], "quoted header text is un-escaped like the rows are (backslash + character -> character; a doubled backslash is one backslash), "
           "not by deleting every backslash", bool(subs) and not strips_all, stmt="header un-escape")
    # the fallback parser of dense rows: same un-escape, pieces of a quoted value re-joined with the delimiter they were split on, empty cells tolerated
    adv = ctx.fn(RDR, "ArffLineReader._dense_advanced")
    strips_all = [c for c in ast.walk(adv) if isinstance(c, ast.Call) and call_tail(c) == "replace" and len(c.args) == 2 and const_str(c.args[0]) == "\\" and const_str(c.args[1]) == ""]
    subs = [c for c in ast.walk(adv) if isinstance(c, ast.Call) and call_name(c) in ("re.sub", "sub") and len(c.args) >= 3 and const_str(c.args[0]) == "\\\\(.)" and const_str(c.args[1]) == "\\1"]
    ctx.ob(rule, RDR, "ArffLineReader._dense_advanced", (strips_all or subs or [adv])[0], "the fallback parser un-escapes like the csv path (backslash + character -> character)", bool(subs) and not strips_all,
           stmt="fallback un-escape")
    splits = [c for c in ast.walk(adv) if isinstance(c, ast.Call) and call_tail(c) == "split" and isinstance(c.func, ast.Attribute) and unparse(c.func.value) == adv.args.args[1].arg and c.args
              and not isinstance(c.args[0], ast.Constant)]
    delim = unparse(splits[0].args[0]) if splits else None
    rejoin = [x for x in ast.walk(adv) if isinstance(x, ast.AugAssign) and isinstance(x.op, ast.Add) and isinstance(x.value, ast.BinOp) and isinstance(x.value.op, ast.Add)]
    ctx.ob(rule, RDR, "ArffLineReader._dense_advanced", rejoin[0] if rejoin else adv, "pieces of a quoted value are re-joined with the delimiter the row was split on", bool(rejoin) and delim is not None and
           all(unparse(x.value.left) == delim for x in rejoin), detail={"split on": delim, "re-joined with": [unparse(x.value.left) for x in rejoin]}, stmt="fallback re-join")
    from ..util import all_guards as _ag
    firsts = [x for x in ast.walk(adv) if isinstance(x, ast.Subscript) and isinstance(x.slice, ast.Constant) and x.slice.value == 0 and isinstance(x.value, ast.Name)
              and isinstance(parent(x), ast.Compare)]
    okf = all(any(pol and unparse(t) == unparse(x.value) for t, pol in _ag(x, adv)) for x in firsts)
    ctx.ob(rule, RDR, "ArffLineReader._dense_advanced", firsts[0] if firsts else adv, "the first character of a cell is looked at only for a non-empty cell", bool(firsts) and okf, stmt="fallback empty cell")
    lr = ctx.model.cls(RDR, "ArffLineReader")
    esc = [k for f_ in lr.methods.values() for d in ast.walk(f_) if isinstance(d, ast.Dict) for k, v in zip(d.keys, d.values) if const_str(k) == "escapechar" and const_str(v) == "\\"] + \
          [k for f_ in lr.methods.values() for c in ast.walk(f_) if isinstance(c, ast.Call) for k in c.keywords if k.arg == "escapechar" and const_str(k.value) == "\\"]
    ctx.ob(rule, RDR, "ArffLineReader", lr.node, "the row dialect un-escapes with escapechar backslash", bool(esc), stmt="row escapechar")


def _marker_tests(e, marker="?"):
    """{(position, text of the string tested)} for the '?'-field tests in expression e: prefix X[:2]=='?,', infix ',?,' in X, suffix X[-2:]==',?'"""
    out = set()
    for c in ast.walk(e):
        if not (isinstance(c, ast.Compare) and len(c.ops) == 1):
            continue
        l, r, op = c.left, c.comparators[0], c.ops[0]
        if isinstance(op, ast.In) and const_str(l) == f",{marker},":
            out.add(("infix", unparse(r)))
        if isinstance(op, ast.Eq):
            for a, b in ((l, r), (r, l)):
                if isinstance(a, ast.Subscript) and isinstance(a.slice, ast.Slice) and const_str(b) in (f"{marker},", f",{marker}"):
                    sl = a.slice
                    if const_str(b) == f"{marker}," and sl.lower is None and sl.upper is not None and unparse(sl.upper) == "2":
                        out.add(("prefix", unparse(a.value)))
                    if const_str(b) == f",{marker}" and sl.upper is None and sl.lower is not None and unparse(sl.lower) == "-2":
                        out.add(("suffix", unparse(a.value)))
    return out


def r6_missing_positions(ctx):
    ctx.rule("C12.R6", "ArffDataReader._dense flags a row as missing when a bare `?` field is first, interior or last: the raw line is tested for the "
                       "leading and trailing form, and the whitespace-compacted line for all three positions (a one-sided test contradicts the belief, "
                       "stated by the fast path, that position matters)")
    fn = ctx.fn(RDR, "ArffDataReader._dense")
    stores = [x for x in ast.walk(fn) if isinstance(x, ast.Assign) and isinstance(x.targets[0], ast.Name) and isinstance(x.value, (ast.BoolOp, ast.Compare))
              and _marker_tests(x.value)]
    ctx.floor("C12.R6", "whitespace-tolerant missing tests in ArffDataReader._dense", len(stores), 1)
    for st in stores:
        tests = _marker_tests(st.value)
        subjects = {t for _, t in tests}
        for subj in sorted(subjects):
            pos = {p_ for p_, t in tests if t == subj}
            # the subject must be the compacted line (bound to <line>.translate(...)) or that expression itself
            compact = "translate" in subj or any("translate" in unparse(v) for v in assigned_value(fn, subj)) if subj.isidentifier() else "translate" in subj
            ctx.ob("C12.R6", RDR, "ArffDataReader._dense", st, "the whitespace-compacted line is tested for a leading, an interior and a trailing `?` field",
                   pos == {"prefix", "infix", "suffix"} and compact, detail={"tested": sorted(pos), "subject": subj}, stmt="compact missing test")
    raw = set()
    for x in ast.walk(fn):
        if isinstance(x, ast.If):
            raw |= {(p_, t) for p_, t in _marker_tests(x.test)}
    ctx.ob("C12.R6", RDR, "ArffDataReader._dense", fn, "the fast path tests the raw line for the leading and the trailing form", {p_ for p_, _ in raw} >= {"prefix", "suffix"},
           detail={"raw": sorted(raw)}, stmt="raw missing tests")
    # value level: ARFF's missing marker is the UNQUOTED `?`; a quoted '?' is the one-character string.  The cells reach the encoders after csv.reader (or the
    # fallback parser) removed the quotes, so an encoder that maps "?" to None cannot tell the two apart unless the line reader passes quoting information on.
    enc = ctx.fn(RDR, "ArffAttrReader._encoder")
    lr = ctx.model.cls(RDR, "ArffLineReader")
    keeps_quoting = any(isinstance(x, ast.Attribute) and x.attr in ("QUOTE_NONE",) for f_ in lr.methods.values() for x in ast.walk(f_)) or \
        any("quoted" in a.arg for f_ in lr.methods.values() for a in f_.args.args)
    for lam in [x for x in ast.walk(enc) if isinstance(x, ast.Lambda) and isinstance(x.body, ast.IfExp) and isinstance(x.body.body, ast.Constant) and x.body.body.value is None
                and any(const_str(c_) == "?" for c_ in ast.walk(x.body.test))]:
        ctx.ob("C12.R6", RDR, "ArffAttrReader._encoder", lam, "a quoted '?' (the one-character string) is not taken for the missing marker: the test sees quoting information", keeps_quoting,
               stmt="string encoder: quoted ? vs missing")
    sp = ctx.fn(RDR, "ArffDataReader._sparse")
    txt = unparse(sp)
    ctx.ob("C12.R6", RDR, "ArffDataReader._sparse", sp, "sparse rows: a `?` value is recognised before a comma and before the closing brace", "' ?,' in" in txt and "' ?}'" in txt, stmt="sparse missing tests")


def r7_csv_dialect(ctx, rule="C12.R7"):
    ctx.rule(rule, "CsvReader parses with exactly the dialect its caller gave (the csv module's RFC-4180 defaults otherwise): the constructor stores the given "
                       "mapping unchanged and filter() hands csv.reader nothing but that mapping")
    init = ctx.fn(RDR, "CsvReader.__init__")
    kwarg = init.args.kwarg.arg if init.args.kwarg else None
    st = [x for x in walk_shallow(init) if isinstance(x, ast.Assign) and any(is_self_attr(t, "_dialect") for t in x.targets)]
    ok = len(st) == 1 and kwarg is not None and unparse(st[0].value) in (kwarg, f"dict({kwarg})", f"dict(**{kwarg})", f"{{**{kwarg}}}")
    ctx.ob(rule, RDR, "CsvReader.__init__", st[0] if st else init, "the dialect is stored as given (no injected escapechar / quoting / delimiter defaults)", ok,
           detail={"stored": unparse(st[0].value) if st else None}, stmt="csv dialect stored")
    flt = ctx.fn(RDR, "CsvReader.filter")
    calls = [c for c in ast.walk(flt) if isinstance(c, ast.Call) and call_name(c) == "csv.reader"]
    ctx.floor(rule, "csv.reader calls in CsvReader.filter", len(calls), 1)
    # the lines handed to csv.reader are the input lines minus their terminator: stripping arbitrary whitespace removes leading / trailing delimiters (tab)
    strips = [k for k in ast.walk(flt) if isinstance(k, ast.Call) and call_tail(k) in ("strip", "rstrip", "lstrip") and isinstance(parent(k), (ast.GeneratorExp, ast.ListComp)) and parent(k).elt is k]
    ctx.ob(rule, RDR, "CsvReader.filter", strips[0] if strips else flt, "only line terminators are stripped from a row before it is parsed (a leading or trailing delimiter belongs to the row)",
           all(k.args and const_str(k.args[0]) is not None and set(const_str(k.args[0])) <= set("\r\n") for k in strips), detail={"strips": [unparse(k) for k in strips]}, stmt="csv row stripping")
    for c in calls:
        kws = [(k.arg, unparse(k.value)) for k in c.keywords]
        ctx.ob(rule, RDR, "CsvReader.filter", c, "csv.reader receives only the stored dialect", kws == [(None, "self._dialect")], detail={"keywords": kws})


CONTROLS = [
    ("fallback parser looks behind a one-character piece", RDR, M.replace_expr("ArffLineReader._dense_advanced", "len(item.rstrip()) < 2 or item.rstrip()[-1] != possible_quotechar or item.rstrip()[-2] == '\\\\'",
        "item.rstrip()[-1] != possible_quotechar or item.rstrip()[-2] == '\\\\'"), "C12.R13"),
    ("sparse values unquoted with strip", RDR, M.replace_expr("ArffLineReader._sparse", "v[1:-1]", "v.strip(v[0])"), "C12.R10"),
    ("libsvm lines split on single blanks", RDR, M.replace_expr("LibsvmReader.filter", "line.split()", "line.strip().split(' ')"), "C12.R12"),
    ("gzip bodies end with their first member", SRC, M.replace_stmt("HttpSource._byte_it_", lambda st: isinstance(st, ast.FunctionDef) and st.name == "decomp", "decomp = zlib.decompressobj(16 + zlib.MAX_WBITS).decompress"), "C12.R1"),
    ("sparse nominal attributes always get a second '0'", RDR, M.replace_stmt("ArffAttrReader._encoder", M.text_has("not in categories"), "categories = ['0'] + categories"), "C12.R11"),
    ("fallback parser re-joins with a comma", RDR, M.replace_expr("ArffLineReader._dense_advanced", "self._fallback_delim + d_line.popleft()", "',' + d_line.popleft()"), "C12.R5"),
    ("fallback parser looks at the first character of an empty cell", RDR, M.replace_expr("ArffLineReader._dense_advanced", "item and item[0] in self._quotes", "item[0] in self._quotes"), "C12.R5"),
    ("sparse rows split whatever they hold", RDR, M.replace_expr("ArffLineReader._sparse", "\"'\" in line or '\"' in line", "False"), "C12.R10"),
    ("header deletes every backslash", RDR, M.replace_expr("ArffAttrReader._split", "re.sub('\\\\\\\\(.)', '\\\\1', item.strip().rstrip()[1:-1])", "item.strip().rstrip()[1:-1].replace('\\\\', '')"), "C12.R5"),
    ("quote character tested through a stale local", RDR, M.delete_stmt("ArffLineReader._dense_simple", lambda st: isinstance(st, ast.Assign) and ast.unparse(st) == "quotechar = self._quotechar", nth=1), "C12.R9"),
    ("UrlSource forwards the un-chunked body", SRC, M.replace_stmt("UrlSource.read", lambda st: isinstance(st, ast.Return), "return text"), "C12.R8"),
    ("only the bare 'w' mode is downgraded", SNK, M.replace_stmt("DiskSink.__exit__", M.text_has("self._mode[:1] == 'w'"), "if self._mode == 'w': self._mode = 'a'"), "C12.R3"),
    ("csv rows stripped of all whitespace", RDR, M.replace_expr("CsvReader.filter", "i.strip('\\r\\n')", "i.strip()"), "C12.R7"),
    ("only LF completes a line", SRC, M.replace_expr("DelimSource.read", "text[-1].splitlines()[0]", "text[-1] != '\\n'"), "C12.R2"),
    ("batched sink truncates on every batch", SNK, M.delete_stmt("DiskSink.__exit__", M.text_has("if self._mode[:1] == 'w': self._mode = 'a' + self._mode[1:]")), "C12.R3"),
    ("backslash escape injected into the csv dialect", RDR, M.replace_expr("CsvReader.__init__", "dialect", "{'escapechar': '\\\\', **dialect}", nth=0), "C12.R7"),
    ("only interior ? after compaction", RDR, M.replace_expr("ArffDataReader._dense", "compact[:2] == '?,' or ',?,' in compact or compact[-2:] == ',?'", "',?,' in compact"), "C12.R6"),
    ("quote checks chained", RDR, lambda tree: _chain_quote_ifs(tree), "C12.R5"),
    ("decompressor per chunk", SRC, M.replace_expr("HttpSource._byte_it_", "decomp(chunk)", "zlib.decompressobj(16 + zlib.MAX_WBITS).decompress(chunk)"), "C12.R1"),
    ("utf-8 keyword case sensitive", RDR, M.replace_expr("ArffAttrReader._encoder", "encoding.lower() in numeric_types", "encoding in numeric_types"), "C12.R4"),
    ("drop relational", RDR, M.replace_expr("ArffAttrReader._encoder", "('string', 'date', 'relational')", "('string', 'date')"), "C12.R4"),
    ("two terminators", SNK, M.replace_expr("DiskSink.write", "line + '\\n'", "line + '\\r\\n\\n'"), "C12.R3"),
    ("reader strips spaces", SRC, M.replace_expr("DiskSource.read", "line.rstrip('\\r\\n')", "line.strip()"), "C12.R3"),
]


def _chain_quote_ifs(tree):
    from ..mutate import find_def, TargetMissing
    fn = find_def(tree, "ArffLineReader._dense_simple")
    ifs = [i for i, st in enumerate(fn.body) if isinstance(st, ast.If) and isinstance(st.test, ast.Compare) and isinstance(st.test.left, ast.Constant) and st.test.left.value in ('"', "'")]
    if len(ifs) != 2:
        raise TargetMissing("two quote ifs")
    a, b = ifs
    fn.body[a].orelse = [fn.body[b]]
    del fn.body[b]
