"""C10 -- representation changes keep action <-> reward (DESIGN.md 5/C10).

Sibling cross-check over the representation family = every EnvironmentFilter whose filter()
stores into <interaction>['actions'] (computed): whoever rewrites `actions` must re-bind what is
keyed by the old representation (functional rewards/feedbacks, the logged action) with the same
transformation, or be a container-only (equality-preserving) change.
"""
import ast

from ..model import walk_shallow, call_name, is_self_attr, dotted_name, parent, ancestors, enclosing_function, norm_stmt
from ..util import (has_call, find_calls, assigned_value, const_str, unparse, kw, arg_or_kw, enclosing_stmt,
                    guards_of, call_tail, control_ancestors)
from .. import mutate as M

TECHNIQUE = "static analysis: sibling cross-check over the computed family of filters that store <interaction>['actions'] (same transformer, same parameters, targets rebuilt), stateful-instance sharing rule, current-row re-chunking rule, whole-row memo-key rule"

EXPLANATION = ("Sibling rules over every EnvironmentFilter that stores new['actions'] (family computed from the class "
               "hierarchy): R1 each functional target (rewards, feedbacks) is rebuilt from (new actions, old target applied "
               "to old actions) or the change is container-only; R2 the same transformer is applied to new['action']; R3 the "
               "transformer used for action is parameterised like the one used for actions; R4 Finalize wraps list rewards "
               "around the post-Repr actions and the reward classes compare by equality.")
EXPLANATION += " R5: filters owning a table grown while reading are instantiated once per environment; R6: flat action streams are cut by the current row's length; R7: the encoding memo is keyed by whole-row equality."
EXPLANATION += " R1 also: a positional `.rewards` shortcut is guarded by `<reward>.actions == old['actions']`; R3 also: action and actions are re-represented under the same switches; R8: EncodeCatRows copies nested rows before rewriting them."

EF = "coba/environments/filters.py"
PRIM = "coba/primitives.py"
TARGETS = ("rewards", "feedbacks")
BUILTIN_CALLS = {"list", "map", "next", "islice", "repeat", "methodcaller", "tuple", "dict", "iter", "zip", "chain", "tee", "len",
                 "enumerate", "sorted", "bool", "isinstance", "callable", "range", "set", "from_iterable"}


def run(ctx):
    writers = find_writers(ctx)
    r1_targets_follow(ctx, writers)
    r2_action_follows(ctx, writers)
    r4_finalize(ctx)
    r5_stateful_not_shared(ctx)
    r6_rechunk_by_current_row(ctx)
    r7_row_memo(ctx)
    r9_batch_by_key(ctx)
    # actions re-encoded by Repr / Finalize go through EncodeCatRows: the expansion of a categorical must be a one-hot and keys must be taken as keys
    from . import c13
    c13.r17_categorical_expansion(ctx, rule="C10.R10")
    r11_representation_tables(ctx)
    # re-keyed rewards / feedbacks and the logged action are found through `<actions>.index(<action>)`, i.e. through the equality of the row views Densify / Repr produce
    c13.r18_equality_by_contents(ctx, rule="C10.R12")
    r13_conversions_keep_actions_apart(ctx)
    r14_recoder_copies(ctx)
    # re-encoding must not rewrite the old interaction (Repr compares new['actions'] with old['actions'] to decide whether to rebuild the rewards)
    from . import c04
    c04.r3_copy_before_mutate(ctx, rule="C10.R8", only={"EncodeCatRows"})
    ctx.rules["C10.R8"] = ("EncodeCatRows (used by Repr/Finalize to re-encode actions) rewrites only objects created in the call: nested rows are copied before they are "
                           "rewritten, so the old interaction still holds the old actions when Repr decides whether the rewards must be rebuilt")


def r13_conversions_keep_actions_apart(ctx, rule="C10.R13"):
    """Sparsify / Densify rebuild reward and feedback functions as DiscreteReward(<new actions>, <old values>): that is only right while the conversion keeps distinct
    actions distinct.  (a) a sparse form leaves out the NUMBER 0 only -- None, '' and () are values; (b) the hashing trick uses every position: crc32 % n_feats."""
    ctx.rule(rule, "representation changes keep distinct actions distinct as far as the representation allows: Sparsify._make_sparse filters its comprehensions with `value != 0` "
                   "(never by truthiness), Densify._make_dense hashes with `crc32(..) % self._n_feats` (the modulus, not a bit mask)")
    ms = ctx.fn(EF, "Sparsify._make_sparse")
    n = 0
    for comp in [c for c in ast.walk(ms) if isinstance(c, (ast.DictComp, ast.ListComp, ast.SetComp, ast.GeneratorExp))]:
        for g in comp.generators:
            for t in g.ifs:
                conj = t.values if isinstance(t, ast.BoolOp) and isinstance(t.op, ast.And) else [t]
                for c_ in conj:
                    if isinstance(c_, ast.Compare) and any(isinstance(o, (ast.Lt, ast.LtE, ast.Gt, ast.GtE)) for o in c_.ops):
                        continue   # a bound check on a position
                    n += 1
                    ok = isinstance(c_, ast.Compare) and len(c_.ops) == 1 and isinstance(c_.ops[0], ast.NotEq) and "0" in (unparse(c_.left), unparse(c_.comparators[0]))
                    if isinstance(c_, ast.UnaryOp) and isinstance(c_.op, ast.Not) and isinstance(c_.operand, ast.Compare) and len(c_.operand.ops) == 1 and isinstance(c_.operand.ops[0], ast.Eq) \
                            and "0" in (unparse(c_.operand.left), unparse(c_.operand.comparators[0])):
                        ok = True   # `not v == 0`
                    ctx.ob(rule, EF, "Sparsify._make_sparse", comp, "a value is left out of the sparse form only if it equals the number 0", ok, detail={"filter": unparse(c_)})
    ctx.floor(rule, "value filters in Sparsify._make_sparse", n, 2)
    md = ctx.fn(EF, "Densify._make_dense")
    hs = [c for c in ast.walk(md) if isinstance(c, ast.Call) and call_name(c) in ("crc32", "zlib.crc32", "binascii.crc32")]
    ctx.floor(rule, "hash calls in Densify._make_dense", len(hs), 1)
    for c in hs:
        p_ = parent(c)
        ok = isinstance(p_, ast.BinOp) and isinstance(p_.op, ast.Mod) and p_.left is c and unparse(p_.right) == "self._n_feats"
        ctx.ob(rule, EF, "Densify._make_dense", p_ if isinstance(p_, ast.BinOp) else c, "a hashed feature lands at crc32 % n_feats (every position reachable for every n_feats)", ok, detail={"position": unparse(p_)[:80]})


def r14_recoder_copies(ctx, rule="C10.R14"):
    """Repr decides whether the reward / feedback functions must be rebuilt by comparing the NEW actions with the OLD ones: a re-encoder that writes into the old action
    objects makes them equal, and functional rewards keep answering for the old representation."""
    ctx.rule(rule, "EncodeCatRows hands out new objects for the rows it re-encodes: every return of its helper that makes a row writable is a copy / a freshly built container "
                   "(copy(o), list(..), dict(..)), never the object it was given")
    fn = ctx.fn("coba/pipes/rows.py", "EncodeCatRows._encode_collection")
    helpers = [f for f in ast.walk(fn) if isinstance(f, ast.FunctionDef) and f is not fn and len(f.args.args) == 1
               and any(isinstance(r, ast.Return) and isinstance(r.value, ast.Call) and call_name(r.value) in ("copy", "copy.copy") for r in ast.walk(f))]
    ctx.floor(rule, "row-copy helpers in EncodeCatRows._encode_collection", len(helpers), 1)
    for h in helpers:
        P = h.args.args[0].arg
        for r in [r for r in ast.walk(h) if isinstance(r, ast.Return) and r.value is not None]:
            fresh = isinstance(r.value, ast.Call) and call_name(r.value) in ("copy", "copy.copy", "list", "dict", "tuple", "deepcopy", "copy.deepcopy")
            ctx.ob(rule, "coba/pipes/rows.py", f"EncodeCatRows._encode_collection.{h.name}", r, "the writable row is a new object", fresh and not (isinstance(r.value, ast.Name) and r.value.id == P), detail={"returns": unparse(r.value)})


def r9_batch_by_key(ctx, rule="C10.R9"):
    """Batch pairs the members' fields by key: interactions are mappings whose insertion order is not part of their value."""
    ctx.rule(rule, "Batch gathers every batched field by key: each `new[key] = ...` takes its values from `itemgetter(key)` / `<member>[key]` over the batch with the same "
                   "key variable -- never from the positional order of the members' values() (two interactions with the same fields in a different order would "
                   "swap rewards and feedbacks, or reward and probability)")
    fn = ctx.fn(EF, "Batch.filter")
    n = 0
    for st in [x for x in ast.walk(fn) if isinstance(x, ast.Assign)]:
        for t in st.targets:
            if not (isinstance(t, ast.Subscript) and isinstance(t.value, ast.Name) and isinstance(t.slice, ast.Name)):
                continue
            K = t.slice.id
            n += 1
            exprs, todo, seen = [], [st.value], set()
            while todo:
                e = todo.pop()
                exprs.append(e)
                for y in ast.walk(e):
                    if isinstance(y, ast.Name) and y.id not in seen and y.id != K:
                        seen.add(y.id)
                        todo += assigned_value(fn, y.id)
            by_key = any((isinstance(y, ast.Call) and call_name(y) in ("itemgetter", "operator.itemgetter") and len(y.args) == 1 and isinstance(y.args[0], ast.Name) and y.args[0].id == K)
                         or (isinstance(y, ast.Subscript) and isinstance(y.slice, ast.Name) and y.slice.id == K and isinstance(y.ctx, ast.Load) and y is not t)
                         for e in exprs for y in ast.walk(e))
            positional = any((isinstance(y, ast.Call) and call_tail(y) == "values" and not y.args) or (isinstance(y, ast.Call) and call_name(y) == "methodcaller" and y.args and const_str(y.args[0]) == "values")
                             for y in ast.walk(fn))
            ctx.ob(rule, EF, "Batch.filter", st, f"the batched field is gathered by its key `{K}` from every member (no positional use of values())", by_key and not positional)
    ctx.floor(rule, "batched field stores in Batch.filter", n, 2)


def r11_representation_tables(ctx, rule="C10.R11"):
    """Densify's look-up table must stay collision free across pickling, and no re-representation may be memoised by object identity."""
    from . import c04
    ctx.rule(rule, "re-representations are functions of the VALUE: Densify's restored look-up table continues its position generator exactly where it was (one replayed draw per stored key); "
                   "no filter memoises a converted action set under id(<object>) -- CPython re-uses the addresses of freed lists, a stream then gets an earlier interaction's actions")
    c04.densify_replay(ctx, rule)
    n = 0
    for rel in (EF, "coba/pipes/filters.py", "coba/pipes/rows.py"):
        mod = ctx.model.modules[rel]
        for c in [c for c in ast.walk(mod.tree) if isinstance(c, ast.Call) and isinstance(c.func, ast.Name) and c.func.id == "id" and len(c.args) == 1]:
            n += 1
            from ..model import qualname
            ctx.ob(rule, rel, qualname(c), c, "object identity (id()) is not used as a key for converted values", False, detail={"call": unparse(c)})
    ctx.ob(rule, EF, "", None, f"no id()-keyed memo in the representation filters ({n} found)", n == 0, stmt="no identity-keyed memo", line=1)


CORE = "coba/environments/core.py"
_CONTAINERS = ("defaultdict", "dict", "list", "set", "deque", "collections.defaultdict", "OrderedDict")
_MUT = {"append", "extend", "pop", "update", "setdefault", "clear", "insert", "remove", "add", "popitem", "discard"}


def stateful_filters(ctx):
    """{class name: [attrs]} EnvironmentFilters that own a container created in __init__, grown while reading, and *read back into the output*
    (a pure accumulator that is only ever `+=`-ed, like timing counters, is not state the output depends on)."""
    base = ctx.model.cls(PRIM, "EnvironmentFilter")
    out = {}
    for c in ctx.model.subclasses(base):
        init = c.methods.get("__init__")
        if init is None:
            continue
        cont = {}
        for x in walk_shallow(init):
            if isinstance(x, ast.Assign):
                for t in x.targets:
                    if is_self_attr(t):
                        v = x.value
                        if isinstance(v, (ast.Dict, ast.List, ast.Set)) or (isinstance(v, ast.Call) and call_name(v) in _CONTAINERS):
                            cont[t.attr] = call_name(v) if isinstance(v, ast.Call) else type(v).__name__
        for name, fn in c.methods.items():
            if name == "__init__":
                continue
            for x in ast.walk(fn):
                if isinstance(x, ast.Subscript) and is_self_attr(x.value) and x.value.attr in cont:
                    grows = isinstance(x.ctx, (ast.Store, ast.Del)) or "defaultdict" in cont[x.value.attr]
                    read_back = isinstance(x.ctx, ast.Load) and not (isinstance(parent(x), ast.AugAssign) and parent(x).target is x)
                    if grows and (read_back or any(isinstance(y, ast.Subscript) and is_self_attr(y.value) and y.value.attr == x.value.attr and isinstance(y.ctx, ast.Load)
                                                   and not isinstance(parent(y), ast.AugAssign) for f2 in c.methods.values() for y in ast.walk(f2))):
                        out.setdefault(c.name, set()).add(x.value.attr)
                if isinstance(x, ast.Call) and isinstance(x.func, ast.Attribute) and x.func.attr in _MUT and is_self_attr(x.func.value) and x.func.value.attr in cont:
                    out.setdefault(c.name, set()).add(x.func.value.attr)
    return {k: sorted(v) for k, v in out.items()}


def r5_stateful_not_shared(ctx, rule="C10.R5", extra=None, text=None):
    ctx.rule(rule, text or ("a representation filter that owns a table grown while reading (Densify's feature->column look-up) is instantiated once per "
                            "environment by the Environments shortcuts, never one instance shared through Environments.filter"))
    st = stateful_filters(ctx)
    st.update(extra or {})
    ctx.floor(rule, "stateful filters (computed)", len(st), 1)
    ctx.note(f"{rule} stateful filters: " + ", ".join(f"{k}.{'/'.join(v)}" for k, v in sorted(st.items())))
    envs = ctx.model.cls(CORE, "Environments")
    n = 0
    for name, fn in sorted(envs.methods.items()):
        for c in walk_shallow(fn):
            if not (isinstance(c, ast.Call) and call_name(c) is not None and call_name(c).split(".")[-1] in st):
                continue
            n += 1
            ctx.touch(CORE, f"Environments.{name}")
            anc = list(ancestors(c))
            per_env = any(isinstance(a, (ast.ListComp, ast.GeneratorExp)) or (isinstance(a, ast.For) and "env" in unparse(a.iter)) for a in anc)
            lam = next((a for a in anc if isinstance(a, ast.Lambda) or (isinstance(a, ast.FunctionDef) and a is not fn)), None)
            if lam is not None:
                # the factory must be *called* inside a per-environment comprehension, and never elsewhere
                holder = parent(lam)
                fname = holder.targets[0].id if isinstance(holder, ast.Assign) and isinstance(holder.targets[0], ast.Name) else getattr(lam, "name", None)
                calls = [k for k in walk_shallow(fn) if isinstance(k, ast.Call) and isinstance(k.func, ast.Name) and k.func.id == fname]
                per_env = bool(calls) and all(any(isinstance(a, (ast.ListComp, ast.GeneratorExp)) for a in ancestors(k)) for k in calls)
            ctx.ob(rule, CORE, f"Environments.{name}", c, f"{call_name(c)}(...) is constructed once per environment (inside the per-environment comprehension)", per_env,
                   detail={"state": st[call_name(c).split(".")[-1]]})
    ctx.floor(rule, "construction sites of stateful filters in Environments", n, 1)


def r6_rechunk_by_current_row(ctx):
    ctx.rule("C10.R6", "a filter that encodes all actions as one flat stream cuts the stream back into action sets by the length of the *current* "
                       "interaction's action list (len of the loop variable / its ['actions']), never by a length taken from another interaction")
    n = 0
    for (rel, qual), fn in sorted(ctx.model.functions.items()):
        if rel != EF:
            continue
        flat = set()
        for x in walk_shallow(fn):
            if isinstance(x, ast.Assign) and len(x.targets) == 1 and isinstance(x.targets[0], ast.Name):
                for g in ast.walk(x.value):
                    if isinstance(g, ast.GeneratorExp) and len(g.generators) == 2 and const_str(getattr(g.generators[1].iter, "slice", None)) == "actions":
                        flat.add(x.targets[0].id)
                    if isinstance(g, ast.Call) and call_name(g) in ("chain.from_iterable", "from_iterable"):
                        flat.add(x.targets[0].id)
        if not flat:
            continue
        for c in walk_shallow(fn):
            if isinstance(c, ast.Call) and call_name(c) == "islice" and c.args and isinstance(c.args[0], ast.Name) and c.args[0].id in flat:
                n += 1
                ctx.touch(rel, qual)
                loopvars = set()
                for a in ancestors(c):
                    if isinstance(a, ast.For):
                        loopvars |= {t.id for t in ast.walk(a.target) if isinstance(t, ast.Name)}
                cnt = c.args[1] if len(c.args) == 2 else None
                ok = isinstance(cnt, ast.Call) and call_name(cnt) == "len" and len(cnt.args) == 1 and (
                    (isinstance(cnt.args[0], ast.Name) and cnt.args[0].id in loopvars) or
                    (isinstance(cnt.args[0], ast.Subscript) and isinstance(cnt.args[0].value, ast.Name) and cnt.args[0].value.id in loopvars and const_str(cnt.args[0].slice) == "actions"))
                ctx.ob("C10.R6", rel, qual, c, "the flat action stream is cut by len(<current row>)", ok, detail={"count": unparse(cnt) if cnt is not None else None, "loop_vars": sorted(loopvars)})
    ctx.floor("C10.R6", "islice cuts of flattened action streams", n, 2)


def r7_row_memo(ctx, rule="C10.R7"):
    ctx.rule(rule, "a one-entry memo of encoded actions (re-use the previous encoding when the action set repeats) is keyed by equality of the whole "
                   "row: the miss test is `row != previous row`, and key and value are refreshed together")
    n = 0
    for (rel, qual), fn in sorted(ctx.model.functions.items()):
        if rel != EF:
            continue
        for loop in [x for x in ast.walk(fn) if isinstance(x, ast.For) and isinstance(x.target, ast.Name)]:
            r = loop.target.id
            for iff in [x for x in loop.body if isinstance(x, ast.If)]:
                keys = [st for st in iff.body if isinstance(st, ast.Assign) and isinstance(st.value, ast.Name) and st.value.id == r and isinstance(st.targets[0], ast.Name)]
                if not keys:
                    continue
                K = keys[0].targets[0].id
                vals = [st for st in iff.body if isinstance(st, ast.Assign) and st is not keys[0] and r in {x.id for x in ast.walk(st.value) if isinstance(x, ast.Name)}]
                yielded = [y for y in ast.walk(loop) if isinstance(y, ast.Yield) and isinstance(y.value, ast.Name) and any(y.value.id == v.targets[0].id for v in vals if isinstance(v.targets[0], ast.Name))]
                if not yielded:
                    continue
                n += 1
                ctx.touch(rel, qual)
                t = iff.test
                ds = t.values if isinstance(t, ast.BoolOp) and isinstance(t.op, ast.Or) else [t]
                def full_ne(d):
                    return isinstance(d, ast.Compare) and len(d.ops) == 1 and isinstance(d.ops[0], ast.NotEq) and {unparse(d.left), unparse(d.comparators[0])} == {r, K}
                def is_none(d):
                    return isinstance(d, ast.Compare) and len(d.ops) == 1 and isinstance(d.ops[0], ast.Is) and unparse(d.left) == K and unparse(d.comparators[0]) == "None"
                ok = any(full_ne(d) for d in ds) and all(full_ne(d) or is_none(d) for d in ds)
                ctx.ob(rule, rel, qual, iff.test, f"the memo is missed exactly when `{r} != {K}` (whole-row equality)", ok, detail={"test": unparse(t)})
                ctx.ob(rule, rel, qual, iff, "key and value of the memo are refreshed in the same branch", bool(vals), stmt=f"memo refresh {K}")
    ctx.floor(rule, "one-entry row memos in environment filters", n, 1)


def find_writers(ctx):
    """[(class, filter fn, [store stmt of X['actions']])] for all EnvironmentFilter subclasses."""
    base = ctx.model.cls(PRIM, "EnvironmentFilter")
    out = []
    for c in ctx.model.subclasses(base):
        fn = c.methods.get("filter")
        if fn is None:
            continue
        stores = []
        for x in walk_shallow(fn):
            if isinstance(x, ast.Assign):
                for t in x.targets:
                    if isinstance(t, ast.Subscript) and isinstance(t.value, ast.Name) and const_str(t.slice) == "actions":
                        stores.append(x)
        if stores and c.name not in ("Batch", "Unbatch"):
            out.append((c, fn, stores))
    ctx.floor("C10.R1", "filters that rewrite interaction['actions']", len(out), 6)
    ctx.floor("C10.R1", "stores into <interaction>['actions']", sum(len(s) for _, _, s in out), 7)
    return out


def _expand(e, fn, depth=0, seen=None):
    """all expressions that may flow into e through single-assignment locals and local generator helpers."""
    seen = seen if seen is not None else set()
    out = [e]
    if depth > 4:
        return out
    for n in ast.walk(e):
        if isinstance(n, ast.Name) and isinstance(n.ctx, ast.Load) and n.id not in seen:
            seen.add(n.id)
            for v in assigned_value(fn, n.id):
                out += _expand(v, fn, depth + 1, seen)
            for d in ast.walk(fn):
                if isinstance(d, ast.FunctionDef) and d.name == n.id and d is not fn:
                    for st in d.body:
                        out += _expand(st, fn, depth + 1, seen) if not isinstance(st, ast.FunctionDef) else []
                    # names used inside the helper
                    for st in ast.walk(d):
                        if isinstance(st, ast.Assign):
                            out += _expand(st.value, d, depth + 1, seen)
    return out


def transformers(e, fn, ctx, c):
    """{(callee text, (arg texts))} of the repository-specific transformers in the value flowing into e:
    constructors of coba classes and self.<method>/self.<field>.<method> calls."""
    out = set()
    for x in _expand(e, fn):
        for n in ast.walk(x):
            if not isinstance(n, ast.Call):
                continue
            nm = call_name(n)
            if nm is None:
                continue
            tail = nm.split(".")[-1]
            if tail in BUILTIN_CALLS:
                continue
            if nm.startswith("self."):
                out.add((nm, tuple(unparse(a) for a in n.args if "self." in unparse(a))))
            elif tail[:1].isupper():
                out.add((nm, tuple(unparse(a) for a in n.args)))
        # methods passed as values: map(self._make_sparse, ...)
        for n in ast.walk(x):
            if isinstance(n, ast.Attribute) and is_self_attr(n) and n.attr in c.methods and isinstance(parent(n), ast.Call) and n in parent(n).args:
                out.add((f"self.{n.attr}", ()))
    return out


def container_only(e, fn, ctx, c):
    return not transformers(e, fn, ctx, c)


def _ivar(store):
    return store.targets[0].value.id


def r1_targets_follow(ctx, writers):
    ctx.rule("C10.R1", "whoever stores new['actions'] rebuilds every functional target (rewards, feedbacks) from the new actions "
                       "and the old target applied to the old actions -- or only changes the container (equality-preserving)")
    for c, fn, stores in writers:
        qual = f"{c.name}.filter"
        for st in stores:
            X = _ivar(st)
            if container_only(st.value, fn, ctx, c):
                ctx.ob("C10.R1", c.rel, qual, st, "container-only change of actions (element-wise equal under Dense/Sparse equality): functional rewards still match",
                       True, detail={"value": unparse(st.value)})
                continue
            covered = _covered_targets(fn, X, st)
            # every reward object built for the new interaction must be keyed by the NEW actions
            new_txt = {f"{X}['actions']", unparse(st.value)} | ({st.value.id} if isinstance(st.value, ast.Name) else set())
            for x in walk_shallow(fn):
                if isinstance(x, ast.Assign) and any(isinstance(t, ast.Subscript) and isinstance(t.value, ast.Name) and t.value.id == X for t in x.targets):
                    vals = [x.value] + (assigned_value(fn, x.value.id) if isinstance(x.value, ast.Name) else [])
                    for v in vals:
                        for cc in ast.walk(v):
                            if isinstance(cc, ast.Call) and call_name(cc) == "DiscreteReward" and len(cc.args) == 2:
                                a0 = unparse(cc.args[0])
                                ok = a0 in new_txt or any(a0.startswith(n + "[") for n in new_txt)
                                ctx.ob("C10.R1", c.rel, qual, cc, "a rebuilt reward mapping is keyed by the new actions", ok, detail={"keyed_by": a0})
                                # ... and its values are the old target applied to the OLD actions
                                for mp in [m for e2 in _expand(cc.args[1], fn) for m in ast.walk(e2) if isinstance(m, ast.Call) and call_name(m) == "map" and len(m.args) == 2]:
                                    A = mp.args[1]
                                    okA, why = _is_old_actions(A, fn, X, st)
                                    ctx.ob("C10.R1", c.rel, qual, mp, "the old reward function is evaluated on the old (pre-transformation) actions", okA, detail={"actions_expr": unparse(A), "why": why})
            for t in TARGETS:
                ok = t in covered
                ctx.ob("C10.R1", c.rel, qual, st, f"functional `{t}` is re-bound to the new action representation", ok,
                       detail={"rebuilt_targets": sorted(covered), "actions_value": unparse(st.value)[:100]}, stmt=f"{t} after: " + norm_stmt(st, 110))


def positional_shortcuts(ctx, writers, rule="C10.R1"):
    """DiscreteReward(<new actions>, <old reward object>.rewards) pairs rewards with actions by position: sound only where the old reward
    object lists exactly the old action list, in the same order."""
    from ..util import all_guards
    n = 0
    for c, fn, stores in writers:
        for cc in ast.walk(fn):
            if isinstance(cc, ast.Call) and call_name(cc) == "DiscreteReward" and len(cc.args) == 2 and isinstance(cc.args[1], ast.Attribute) and cc.args[1].attr == "rewards":
                n += 1
                owner = unparse(cc.args[1].value)
                ok = False
                for t, pol in all_guards(cc, fn):
                    if pol and isinstance(t, ast.Compare) and len(t.ops) == 1 and isinstance(t.ops[0], ast.Eq):
                        sides = {unparse(t.left), unparse(t.comparators[0])}
                        if f"{owner}.actions" in sides and any(s_.endswith("['actions']") for s_ in sides - {f"{owner}.actions"}):
                            ok = True
                ctx.ob(rule, c.rel, f"{c.name}.filter", cc, "rewards taken over by position come from a reward object that lists exactly the old actions in the old order "
                       "(guard `<reward>.actions == <old>['actions']`)", ok, stmt="positional rewards shortcut")
    return n


def _is_old_actions(A, fn, X, store):
    """does expression A denote the actions BEFORE `X['actions'] = ...` (statement `store`) took effect?"""
    txt = unparse(A)
    if isinstance(A, ast.Subscript) and const_str(A.slice) == "actions" and isinstance(A.value, ast.Name):
        if A.value.id != X:
            return True, f"{txt}: the untouched input interaction"
        return (A.lineno < store.lineno), f"{txt} read {'before' if A.lineno < store.lineno else 'AFTER'} the new actions were stored"
    if isinstance(A, ast.Name):
        binds = [x for x in walk_shallow(fn) if isinstance(x, ast.Assign) and any(isinstance(t, ast.Name) and t.id == A.id for t in x.targets)]
        if binds and all(isinstance(b.value, ast.Subscript) and const_str(b.value.slice) == "actions" for b in binds):
            ok = all(unparse(b.value.value) != X or b.lineno < store.lineno for b in binds)
            return ok, f"{A.id} := {unparse(binds[0].value)} bound {'before' if ok else 'AFTER'} the store"
        if binds and any(unparse(b.value) == unparse(store.value) for b in binds):
            return False, f"{A.id} is the new action list"
    return False, f"cannot show that {txt} denotes the old actions"


def _covered_targets(fn, X, actions_store):
    """targets for which a rebuild `X[T] = DiscreteReward(<new actions>, ...)` / BinaryReward re-anchoring exists."""
    new_actions_txt = {f"{X}['actions']", unparse(actions_store.value)}
    if isinstance(actions_store.value, ast.Name):
        new_actions_txt.add(actions_store.value.id)
    covered = set()
    for x in walk_shallow(fn):
        if not isinstance(x, ast.Assign):
            continue
        for t in x.targets:
            if not (isinstance(t, ast.Subscript) and isinstance(t.value, ast.Name) and t.value.id == X):
                continue
            vals = [x.value]
            if isinstance(x.value, ast.Name):
                vals += assigned_value(fn, x.value.id)
            rebuilt = False
            for v in vals:
                for cc in ast.walk(v):
                    if isinstance(cc, ast.Call) and call_name(cc) in ("DiscreteReward", "BinaryReward", "Batch.Callable") and cc.args:
                        a0 = unparse(cc.args[0])
                        if a0 in new_actions_txt or any(a0.startswith(n + "[") for n in new_actions_txt):
                            rebuilt = True
            if not rebuilt:
                continue
            key = const_str(t.slice)
            if key in TARGETS:
                covered.add(key)
            elif isinstance(t.slice, ast.Name):
                # for target in <targets list>: X[target] = ...
                for comp, _ in control_ancestors(x, fn):
                    if isinstance(comp, ast.For) and unparse(comp.target) == t.slice.id and isinstance(comp.iter, (ast.List, ast.Tuple)):
                        # for target in ['rewards', 'feedbacks']: X[target] = ...
                        covered |= {const_str(e) for e in comp.iter.elts if const_str(e) in TARGETS}
                    if isinstance(comp, ast.For) and unparse(comp.target) == t.slice.id and isinstance(comp.iter, ast.Name):
                        lst = comp.iter.id
                        for y in walk_shallow(fn):
                            if isinstance(y, ast.Call) and call_tail(y) == "append" and unparse(y.func.value) == lst and y.args:
                                k = const_str(y.args[0])
                                if k is None and isinstance(y.args[0], (ast.List, ast.Tuple)) and y.args[0].elts:
                                    k = const_str(y.args[0].elts[0])
                                if k in TARGETS:
                                    covered.add(k)
    return covered


def r2_action_follows(ctx, writers):
    positional_shortcuts(ctx, writers)
    ctx.rule("C10.R2", "the filter that transforms `actions` applies the same transformer to the logged `action`")
    ctx.rule("C10.R3", "the transformer applied to `action` is parameterised like the one applied to `actions`")
    for c, fn, stores in writers:
        qual = f"{c.name}.filter"
        for st in stores:
            X = _ivar(st)
            tr = transformers(st.value, fn, ctx, c)
            act_stores = [x for x in walk_shallow(fn) if isinstance(x, ast.Assign) and any(
                isinstance(t, ast.Subscript) and isinstance(t.value, ast.Name) and t.value.id == X and const_str(t.slice) == "action" for t in x.targets)]
            if not tr:
                ok = bool(act_stores) or True
                ctx.ob("C10.R2", c.rel, qual, st, "container-only change: the logged action stays equal to a member of actions", True, trivial=True)
                continue
            if not act_stores:
                ctx.ob("C10.R2", c.rel, qual, st, "the logged action is re-represented together with actions", False,
                       detail={"transformer": sorted(n for n, _ in tr)}, stmt="action after: " + norm_stmt(st, 110))
                continue
            names = {n for n, _ in tr}
            for a in act_stores:
                tra = transformers(a.value, fn, ctx, c)
                same = bool({n for n, _ in tra} & names)
                # equally good: the logged action is replaced by the member of the NEW action list that stands where it stood in the old one
                # (<new actions>[<old actions>.index(<old action>)])
                v = a.value
                if not same and isinstance(v, ast.Subscript) and isinstance(v.slice, ast.Call) and call_tail(v.slice) == "index" and len(v.slice.args) == 1:
                    new_txt = {f"{X}['actions']", unparse(st.value)} | ({st.value.id} if isinstance(st.value, ast.Name) else set())
                    src = v.slice.func.value
                    arg = v.slice.args[0]
                    olds_ok, _ = _is_old_actions(src, fn, X, st)
                    arg_is_old_action = isinstance(arg, ast.Subscript) and const_str(arg.slice) == "action"
                    same = unparse(v.value) in new_txt and olds_ok and arg_is_old_action
                ctx.ob("C10.R2", c.rel, qual, a, "action goes through the same transformer as actions", same,
                       detail={"actions": sorted(names), "action": sorted(n for n, _ in tra)})
                # the switches (self.<flag>) under which `action` is re-represented are those under which `actions` is
                def flags(node):
                    out = set()
                    for t, pol in guards_of(node, fn):
                        for x in ast.walk(t):
                            if is_self_attr(x):
                                out.add((x.attr, pol))
                    return out
                fa, fs = flags(a), flags(st)
                ctx.ob("C10.R3", c.rel, qual, a, "the logged action is re-represented under the same switches (self.<flag>) as the action set", fa == fs,
                       detail={"actions under": sorted(fs), "action under": sorted(fa)}, stmt="switches of action: " + norm_stmt(a, 90))
                if same:
                    by_name = {}
                    for n, args in tr:
                        by_name.setdefault(n, set()).add(args)
                    for n, args in tra:
                        if n in by_name and n.split(".")[-1][:1].isupper():
                            ok = args in by_name[n]
                            ctx.ob("C10.R3", c.rel, qual, a, f"{n}(...) for action has the same parameters as for actions", ok,
                                   detail={"actions": sorted(map(list, by_name[n])), "action": list(args)})


def r4_finalize(ctx):
    ctx.rule("C10.R4", "Finalize wraps list rewards/feedbacks around the post-Repr actions; reward classes look actions up by equality")
    fn = ctx.fn(EF, "Finalize.filter")
    pipe = [x for x in walk_shallow(fn) if isinstance(x, ast.Assign) and "Repr(" in unparse(x.value) and unparse(x.targets[0]) == "interactions"]
    loops = [x for x in walk_shallow(fn) if isinstance(x, ast.For) and unparse(x.iter) == "interactions"]
    ok = len(pipe) == 1 and len(loops) == 1 and pipe[0].lineno < loops[0].lineno and "Harden()" in unparse(pipe[0].value)
    ctx.ob("C10.R4", EF, "Finalize.filter", pipe[0] if pipe else fn, "Harden and Repr run before the list rewards are wrapped", ok, stmt="harden+repr first")
    n = 0
    for lp in loops:
        for x in walk_shallow(lp):
            if isinstance(x, ast.Assign) and isinstance(x.value, ast.Call) and call_name(x.value) == "DiscreteReward":
                t = x.targets[0]
                key = const_str(t.slice) if isinstance(t, ast.Subscript) else None
                X = t.value.id if isinstance(t, ast.Subscript) and isinstance(t.value, ast.Name) else "?"
                n += 1
                ok = len(x.value.args) == 2 and unparse(x.value.args[0]) == f"{X}['actions']" and unparse(x.value.args[1]) == f"{X}['{key}']"
                ctx.ob("C10.R4", EF, "Finalize.filter", x, f"list `{key}` is bound position-wise to the final actions", ok)
    ctx.floor("C10.R4", "DiscreteReward wraps in Finalize", n, 2)
    for cls in ("BinaryReward", "DiscreteReward"):
        f = ctx.fn(PRIM, f"{cls}.__call__")
        ident = [x for x in walk_shallow(f) if isinstance(x, ast.Compare) and any(isinstance(o, (ast.Is, ast.IsNot)) for o in x.ops)]
        eqs = [x for x in walk_shallow(f) if (isinstance(x, ast.Compare) and any(isinstance(o, (ast.Eq, ast.In)) for o in x.ops))
               or (isinstance(x, ast.Call) and call_tail(x) in ("index", "get"))]
        ok = not ident and bool(eqs)
        ctx.ob("C10.R4", PRIM, f"{cls}.__call__", f, f"{cls} recognises an action by equality (not identity)", ok, stmt=f"{cls} lookup")
    # Dense/Sparse equality is element-wise (what makes container-only changes safe)
    for cls in ("Dense", "Sparse"):
        f = ctx.fn(PRIM, f"{cls}.__eq__")
        src = unparse(f)
        ok = ("zip(" in src or "items()" in src or "dict(" in src or "list(" in src or "map(eq" in src)
        ctx.ob("C10.R4", PRIM, f"{cls}.__eq__", f, f"{cls} equality is by content", ok, stmt=f"{cls}.__eq__")


CONTROLS = [
    ("re-encoding writes into the dict rows it was given", "coba/pipes/rows.py", M.replace_stmt("EncodeCatRows._encode_collection", lambda st: isinstance(st, ast.If) and "isinstance(o, (list, dict))" in ast.unparse(st.test), "if isinstance(o, list): return copy(o)\nif isinstance(o, dict): return o"), "C10.R14"),
    ("a sparse row equals every mapping it is a subset of", "coba/primitives.py", M.replace_expr("Sparse_.__eq__", "dict(self.items()) == dict(o.items())", "all((o[k] == v for k, v in self.items()))"), "C10.R12"),
    ("Sparsify drops every falsy value", EF, M.replace_expr("Sparsify._make_sparse", "v != 0", "v"), "C10.R13"),
    ("Densify masks the hash", EF, M.replace_expr("Densify._make_dense", "crc32(k.encode('ascii')) % self._n_feats", "crc32(k.encode('ascii')) & self._n_feats - 1"), "C10.R13"),
    ("views of one class over the same row compare equal unwalked", "coba/primitives.py", M.insert_before("Dense_.__eq__", lambda st: isinstance(st, ast.Try), "if o.__class__ is self.__class__ and o._row is self._row: return True"), "C10.R12"),
    ("Sparsify leaves reward functions on the old actions", EF, M.delete_stmt("Sparsify.filter", lambda st: isinstance(st, ast.For) and ast.unparse(st.target) == "target"), "C10.R1"),
    ("Noise leaves the logged action un-noised", EF, M.delete_stmt("Noise.filter", M.text_has("new['action'] = noisy_actions")), "C10.R2"),
    ("Flatten leaves the logged action nested", EF, M.delete_stmt("Flatten.filter", M.text_has("new['action'] = new['actions']")), "C10.R2"),
    ("sparse action sets memoised by id()", EF, M.replace_expr("Sparsify.filter", "list(map(self._make_sparse, old_actions, repeat(actions_has_headers), repeat('action')))",
        "{}.setdefault(id(old_actions), list(map(self._make_sparse, old_actions, repeat(actions_has_headers), repeat('action'))))"), "C10.R11"),
    ("Densify restores its table before replaying", EF, M.replace_stmt("Densify.__setstate__", lambda st: isinstance(st, ast.For), "for key in lookup: self._lookup.get(key)"), "C10.R11"),
    ("batch transposed by position", EF, M.replace_expr("Batch.filter", "list(map(itemgetter(key), batch))", "list(list(zip(*[i.values() for i in batch]))[list(first).index(key)])"), "C10.R9"),
    ("DiscreteReward rewards taken over by position unconditionally", EF, M.replace_expr("Repr.filter", "isinstance(old[target], DiscreteReward) and old[target].actions == old['actions']", "isinstance(old[target], DiscreteReward)"), "C10.R1"),
    ("Densify re-represents the logged action under the context switch", EF, M.replace_expr("Densify.filter", "self._action and 'action' in new", "self._context and 'action' in new"), "C10.R3"),
    ("catset rewrites the nested action in place", "coba/pipes/rows.py", M.replace_expr("EncodeCatRows._encode_collection", "mutable(o[k])", "o[k]"), "C10.R8"),
    ("Environments.dense shares one Densify", CORE, M.replace_expr("Environments.dense", "Environments([Pipes.join(env, make_dense()) for env in self._envs])", "self.filter(make_dense())"), "C10.R5"),
    ("Repr cuts by the first row's length", EF, M.replace_expr("Repr.filter", "islice(actionitr, len(row))", "islice(actionitr, len(first['actions']))"), "C10.R6"),
    ("Repr memo keyed by the first action only", EF, M.replace_expr("Repr.filter", "row != prev_row", "prev_row is None or row[0] != prev_row[0]"), "C10.R7"),
    ("Flatten drops reward rebuild", EF, M.replace_stmt("Flatten.filter", M.text_has("for target in targets"), "pass"), "C10.R1"),
    ("Densify drops action", EF, M.replace_stmt("Densify.filter", M.text_has("if self._action and 'action' in new"), "pass"), "C10.R2"),
    ("Repr rebinds to old actions", EF, M.replace_expr("Repr.filter", "DiscreteReward(new['actions'], old[target].rewards)", "DiscreteReward(old['actions'], old[target].rewards)"), "C10.R1"),
    ("Finalize wraps swapped", EF, M.replace_expr("Finalize.filter", "DiscreteReward(new['actions'], new['rewards'])", "DiscreteReward(new['rewards'], new['actions'])"), "C10.R4"),
]
