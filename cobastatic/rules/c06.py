"""C06 -- SequentialCB feeds and records what the environment provides (DESIGN.md 5/C06).

The loop of SequentialCB._results is specialised over the finite configuration space
(learn x eval x record subset x has_score x batched x discrete x present keys, restricted to key
sets that _validate accepts): branch tests are partially evaluated (constant propagation, no solver),
the CFG is pruned, and on the pruned CFG we decide definite assignment (R1), nullness of the
names that are called/measured (R2), provenance of the learn() arguments and recorded values (R3),
order/multiplicity of predict/learn/yield (R4) and the evaluate() wiring (R6).
"""
import ast
import itertools
import os

from ..absint import FlagEval, TOP, Top, is_top, truth
from ..cfg import CFG
from ..dataflow import definitely_assigned, loaded_names, stored_names
from ..model import walk_shallow, call_name, is_self_attr, dotted_name, parent, ancestors, enclosing_function, AnalysisError
from ..util import (has_call, find_calls, assigned_value, const_str, unparse, kw, arg_or_kw, enclosing_stmt,
                    guards_of, call_tail, control_ancestors, name_bound, bound_names)
from .. import mutate as M

TECHNIQUE = 'static analysis: configuration-specialised CFG -- three-valued constant propagation over (learn, eval, record, has_score ...) prunes SequentialCB._results, then definite assignment / argument provenance per pruned CFG (process pool); recognition-order dataflow and memo-key rule reused from C15/C10'

EXPLANATION = ("Configuration-specialised analysis of SequentialCB._results: for every configuration accepted by _validate "
               "the loop body is pruned by partial evaluation of its flag tests; on each distinct pruned CFG: definite "
               "assignment of every local read, nullness of every name that is called/len()'d/subscripted, provenance "
               "terms of learner.learn(...) arguments and of the recorded reward/action/probability, predict-before-"
               "learn domination and one yield per interaction; plus the wiring of evaluate().")
EXPLANATION += ' R8: an answer that is one of the offered objects is read as that action before any look-alike heuristic; R9: the action-encoding memo of Repr is keyed by the whole row.'
EXPLANATION += ' R10: on batched data the recorded action/probability carry the batch marker (one row per interaction); R11: the three batch-order arms of _parse_pred agree.'

SEQ = "coba/evaluators/sequential.py"
LEARN = ["on", "off", "ips", ""]
EVAL = ["on", "ips", ""]
RECORD = ["reward", "time", "probability", "action", "context", "actions", "rewards"]
KEYS = ["context", "actions", "rewards", "action", "reward", "probability"]


def run(ctx):
    fn = ctx.fn(SEQ, "SequentialCB._results")
    req = ctx.fn(SEQ, "SequentialCB._required")
    sp = Specialiser(ctx, fn, req)
    sp.run()
    r4_static(ctx, fn)
    r6_wiring(ctx)
    from . import c15
    c15.r6_safe_actions_cache(ctx, rule="C06.R7")
    # "the action the learner chose": an un-hinted answer that is one of the offered objects is read as that action
    c15.r8_recognition_order(ctx, ctx.fn(c15.SAF, "SafeLearner.pred_format"), rule="C06.R8")
    # "exactly what the environment provides": Finalize (appended to every experiment pipeline) re-encodes actions through Repr's row memo
    from . import c10
    c10.r7_row_memo(ctx, rule="C06.R9")
    # the action handed to learn / recorded is the one the learner named, in every batch layout
    c15.r11_arm_agreement(ctx, ctx.fn(c15.SAF, "SafeLearner._parse_pred"), rule="C06.R11")
    # "the learner's own probability": the sampled action travels with the weight at the same index
    from . import c05
    ctx.rule("C06.R12", "the probability handed to learn and recorded is the PMF entry at the index of the sampled action (CobaRandom.choicew pairs seq[i] with weights[i]; "
                        "a weight looked up by equality is wrong when two offered actions compare equal)")
    c05.choicew_pairs(ctx, "C06.R12")
    # "the environment's reward for that action": Finalize/Repr re-key the reward function when they re-encode the actions
    ctx.rule("C06.R13", "rewards taken over by position when the actions are re-encoded come from a reward object that lists exactly the old actions (guarded by equality of the lists)")
    n13 = c10.positional_shortcuts(ctx, c10.find_writers(ctx), rule="C06.R13")
    ctx.floor("C06.R13", "positional reward shortcuts", n13, 1)
    # "the action the learner chose": an answer by value is sampled as a PMF only if it can be one
    c15.r16_pmf_recognition(ctx, rule="C06.R14")
    # "the documented IPS transform": reward/probability reaches learn and the row as computed -- the reward objects keep what they are given (0 is a value)
    r15_reward_constructors(ctx)
    r16_ips_per_interaction(ctx)
    r17_unbatch_decision(ctx)


def r17_unbatch_decision(ctx, rule="C06.R17"):
    """C06.R10 shows that the learner's outputs carry the batch marker in every batched configuration; the final Unbatch must find the marker wherever it sits
    (the first recorded key is predict_time, a plain float, whenever 'time' is recorded)."""
    ctx.rule(rule, "Unbatch splits a row as soon as ANY of its values is a batch: the guard of the split is the list of batched keys collected over all items of the first "
                   "row (or any(...) over all values), never a test of one position")
    EF_ = "coba/environments/filters.py"
    fn = ctx.fn(EF_, "Unbatch.filter")
    calls = [c for c in ast.walk(fn) if isinstance(c, ast.Call) and call_tail(c) == "_unbatch"]
    ctx.floor(rule, "_unbatch calls in Unbatch.filter", len(calls), 1)
    for c in calls:
        gs = [t for t, pol in guards_of(enclosing_stmt(c), fn) if pol]
        ok = False
        for t in gs:
            vals = [t] if not isinstance(t, ast.Name) else assigned_value(fn, t.id)
            for v in vals:
                if isinstance(v, (ast.ListComp, ast.GeneratorExp, ast.SetComp)) and len(v.generators) == 1 and call_tail(v.generators[0].iter) in ("items", "values") \
                        and any(isinstance(i, ast.Call) and call_name(i) == "is_batch" for i in v.generators[0].ifs):
                    ok = True
                if isinstance(v, ast.Call) and call_name(v) == "any" and v.args and any(isinstance(y, ast.Call) and call_tail(y) in ("values", "items") for y in ast.walk(v.args[0])) \
                        and any((isinstance(y, ast.Name) and y.id == "is_batch") for y in ast.walk(v.args[0])):
                    ok = True
        ctx.ob(rule, EF_, "Unbatch.filter", c, "the decision to split quantifies over every value of the row", ok, detail={"guards": [unparse(t) for t in gs]})


def r16_ips_per_interaction(ctx, rule="C06.R16"):
    """reward / logged probability: both belong to the interaction at hand.  A decision taken once from the first interaction (hoisted out of the loop) is wrong for
    every later interaction that differs from it (logged data whose first interaction carries no probability)."""
    ctx.rule(rule, "OpeRewards.filter, IPS arm: what is stored under the reward target is computed from the current interaction alone -- every name the stored value depends on "
                   "(transitively, through locals of the loop body) is the loop variable, a local of the loop body, an attribute of self or a module-level name; no local "
                   "that was bound outside the loop takes part")
    EF_ = "coba/environments/filters.py"
    fn = ctx.fn(EF_, "OpeRewards.filter")
    arms = [x for x in ast.walk(fn) if isinstance(x, ast.If) and any(const_str(k) == "IPS" for k in ast.walk(x.test))]
    loops = [l_ for a_ in arms for st in a_.body for l_ in ast.walk(st) if isinstance(l_, ast.For)]
    ctx.floor(rule, "loops over the interactions in the IPS arm", len(loops), 1)
    fn_locals = {n_.id for n_ in ast.walk(fn) if isinstance(n_, ast.Name) and isinstance(n_.ctx, ast.Store)} | {a_.arg for a_ in fn.args.args}
    for loop in loops:
        inner = {n_.id for st in loop.body for n_ in ast.walk(st) if isinstance(n_, ast.Name) and isinstance(n_.ctx, ast.Store)} | {n_.id for n_ in ast.walk(loop.target) if isinstance(n_, ast.Name)}
        outer = fn_locals - inner - {"self"}
        defs = {}
        for st in loop.body:
            for x in ast.walk(st):
                if isinstance(x, ast.Assign):
                    for t in x.targets:
                        if isinstance(t, ast.Name):
                            defs.setdefault(t.id, []).append(x.value)
        stores = [x for st in loop.body for x in ast.walk(st) if isinstance(x, ast.Assign) and any(isinstance(t, ast.Subscript) and "target" in unparse(t.slice).lower() for t in x.targets)]
        ctx.floor(rule, "stores of the reward target in the IPS loop", len(stores), 1)
        for x in stores:
            seen, todo, bad = set(), [x.value], set()
            while todo:
                e = todo.pop()
                for n_ in [n_ for n_ in ast.walk(e) if isinstance(n_, ast.Name) and isinstance(n_.ctx, ast.Load)]:
                    if n_.id in outer:
                        bad.add(n_.id)
                    elif n_.id in defs and n_.id not in seen:
                        seen.add(n_.id)
                        todo += defs[n_.id]
            ctx.ob(rule, EF_, "OpeRewards.filter", x, "the IPS reward of an interaction depends on that interaction only", not bad, detail={"outside locals": sorted(bad)})


def r15_reward_constructors(ctx, rule="C06.R15"):
    ctx.rule(rule, "(also: no float()/int() coercion of a label) " + "reward objects store their constructor arguments as given: no `<parameter> or <default>` in a Rewards constructor (a value of 0 -- the IPS transform of a logged reward 0 -- "
                   "is a value, not an absent argument); defaults come from the signature")
    PRIM = "coba/primitives.py"
    base = ctx.model.cls(PRIM, "Rewards")
    n = 0
    for c in ctx.model.subclasses(base):
        init = c.methods.get("__init__")
        if init is None:
            continue
        params = {a.arg for a in init.args.args[1:]} | {a.arg for a in init.args.kwonlyargs}
        n += 1
        bad = [b for b in ast.walk(init) if isinstance(b, ast.BoolOp) and isinstance(b.op, ast.Or) and any(isinstance(v, ast.Name) and v.id in params for v in b.values[:-1])]
        # ... nor pushed through a lossy numeric conversion (float() of an integer label above 2**53 merges neighbouring labels); array scalars are unwrapped with .item()/.tolist()
        bad += [b for b in ast.walk(init) if isinstance(b, ast.Call) and call_name(b) in ("float", "int", "round") and b.args and any(isinstance(y, ast.Name) and y.id in params for y in ast.walk(b.args[0]))]
        ctx.ob(rule, PRIM, f"{c.name}.__init__", (bad or [init])[0], "no constructor parameter is replaced by a default when it is falsy", not bad, detail={"expressions": [unparse(b) for b in bad]},
               stmt=f"{c.name}.__init__ stores arguments as given")
    ctx.floor(rule, "Rewards constructors examined", n, 3)


# ================================================================================================
def eval_required(req_fn, learn, eval_, has_score):
    """partial evaluation of SequentialCB._required: set of required keys (all flags are known)."""
    fe = FlagEval({"self._learn": learn, "self._eval": eval_, "has_score": has_score})
    out = set()
    for st in req_fn.body:
        if isinstance(st, ast.Assign):
            fe.run_prelude([st])
        elif isinstance(st, ast.If):
            t = fe.test(st.test)
            if t is None:
                raise AnalysisError("C06: _required has a test that is not a flag expression: " + unparse(st.test))
            if t:
                for x in st.body:
                    for c in walk_shallow(x):
                        if isinstance(c, ast.Call) and call_tail(c) in ("update", "add"):
                            for a in c.args:
                                if isinstance(a, (ast.List, ast.Tuple, ast.Set)):
                                    out |= {const_str(e) for e in a.elts}
                                elif const_str(a):
                                    out.add(const_str(a))
        elif isinstance(st, ast.Return):
            pass
    return frozenset(out)


_SP = None


def _work(task):
    return _SP.run_task(task)


class _Collector:
    """stands in for ctx inside worker processes: records violated obligations as plain data."""

    def __init__(self, found):
        self.found = found

    def ob(self, rule, rel, qual, node, desc, ok, detail=None, stmt=None, trivial=False, line=None):
        if not ok:
            self.found.append((rule, desc, detail, stmt if stmt is not None else unparse(node)[:120], getattr(node, "lineno", 0) if line is None else line))


class Specialiser:
    def __init__(self, ctx, fn, req_fn):
        self.ctx = ctx
        self.fn = fn
        self.req_fn = req_fn
        loops = [s for s in fn.body if isinstance(s, ast.For) and unparse(s.iter) == "interactions"]
        if len(loops) != 1:
            raise AnalysisError("C06: cannot find the `for interaction in interactions` loop of _results")
        self.loop = loops[0]
        self.ivar = unparse(self.loop.target)
        self.prelude = fn.body[:fn.body.index(self.loop)]
        # names (re)bound inside the loop are loop-variant: never flags
        self.variant = set()
        for x in walk_shallow(self.loop):
            if isinstance(x, ast.Name) and isinstance(x.ctx, ast.Store):
                self.variant.add(x.id)
        self.locals = {x.id for x in walk_shallow(fn) if isinstance(x, ast.Name) and isinstance(x.ctx, ast.Store)}
        self.locals |= {a.arg for a in fn.args.args}
        # flag names must be assigned exactly once in the prelude
        self.tests = [x for x in walk_shallow(fn) if isinstance(x, (ast.If, ast.IfExp))]
        self.seen = {}
        self.n_configs = 0
        # role-based names (robust to renaming of locals)
        self.N_BATCHED = name_bound(fn, lambda v: "is_batch(first.get('context'))" in unparse(v), "batched")
        self.N_DISCRETE = name_bound(fn, lambda v: unparse(v) == "self._discrete(first)", "discrete")
        self.N_SCORE = name_bound(fn, lambda v: unparse(v) == "learner.has_score", "has_score")
        self.N_SHOULD = "should_pred"
        for x in walk_shallow(self.loop):
            if isinstance(x, ast.If) and isinstance(x.test, ast.Name) and any(has_call(s, "learner.predict") for s in x.body):
                self.N_SHOULD = x.test.id
        ys = [y for y in walk_shallow(self.loop) if isinstance(y, ast.Yield) and isinstance(y.value, ast.Name)]
        self.N_OUT = ys[0].value.id if ys else "out"

    # -------------------------------------------------------------------------------------------
    def flags(self, cfg):
        learn, eval_, record, has_score, batched, discrete, K = cfg
        over = {self.N_BATCHED: batched, self.N_DISCRETE: discrete, self.N_SCORE: has_score}
        env = {"self._learn": learn, "self._eval": eval_, "self._record": tuple(record), "first": frozenset(K)}
        fe = FlagEval(env, opaque=lambda e: TOP)
        for st in self.prelude:
            if isinstance(st, ast.Assign) and len(st.targets) == 1:
                t = st.targets[0]
                if isinstance(t, ast.Name) and t.id in over:
                    fe.env[t.id] = over[t.id]
                    continue
            if isinstance(st, (ast.Assign,)):
                fe.run_prelude([st])
            # if-statements of the prelude only (re)define helpers (get_rewards, interactions): names -> TOP
            elif isinstance(st, ast.If):
                for n in ast.walk(st):
                    if isinstance(n, ast.Name) and isinstance(n.ctx, ast.Store):
                        fe.env[n.id] = TOP
        for v in self.variant:
            fe.env.pop(v, None)
        return fe

    def signature(self, fe):
        sig = []
        for t in self.tests:
            sig.append(fe.test(t.test))
        return tuple(sig)

    def configs(self, only=None):
        thorough = self.ctx.thorough
        recs = []
        if self.ctx.silent:  # positive-control runs (either tier): a reduced space is enough to show that the rule fires
            thorough = False
            recs = [frozenset(), frozenset(RECORD), frozenset(["time"])]
        elif thorough:
            for r in range(len(RECORD) + 1):
                recs += [frozenset(c) for c in itertools.combinations(RECORD, r)]
        else:
            recs = [frozenset()] + [frozenset([r]) for r in RECORD] + [frozenset(RECORD), frozenset(["reward", "action", "probability"])]
        for learn in LEARN:
            for eval_ in EVAL:
                for has_score in (True, False):
                    if only is not None and (learn, eval_, has_score) != only:
                        continue
                    required = eval_required(self.req_fn, learn, eval_, has_score)
                    extra = [k for k in KEYS if k not in required]
                    if thorough:
                        ksets = [required | frozenset(c) for r in range(len(extra) + 1) for c in itertools.combinations(extra, r)]
                    elif self.ctx.silent:
                        ksets = [required, required | frozenset(extra)]
                    else:
                        ksets = [required, required | frozenset(extra)] + [required | {k} for k in extra]
                    ksets = list(dict.fromkeys(ksets))
                    for K in ksets:
                        for batched in (False, True):
                            for discrete in ((True, False) if "actions" in K else (False,)):
                                for rec in recs:
                                    yield (learn, eval_, rec, has_score, batched, discrete, K)

    # -------------------------------------------------------------------------------------------
    def run(self):
        ctx = self.ctx
        ctx.rule("C06.R1", "definite assignment: on the CFG pruned for each accepted configuration no local is read before it is assigned")
        ctx.rule("C06.R2", "nullness: a name bound to `... if flag else None` is never called, len()'d or subscripted while None")
        ctx.rule("C06.R3", "provenance: learn() receives (context, chosen/logged action, the environment's reward for it, the "
                           "learner's/logged probability, **kwargs) and the recorded reward/action/probability are those values")
        ctx.rule("C06.R4", "predict dominates learn, neither is in an inner loop, one row is yielded per interaction")
        ctx.rule("C06.R10", "one row per interaction on batched data too: in every batched configuration the learner's recorded outputs (action, probability) "
                            "carry the batch marker, so that the final Unbatch splits the row whatever else is recorded")
        ctx.assume("C06.R2: a non-None reward object / reward batch is truthy (Batch never emits an empty batch), so "
                   "`len(x) if x else len(y)` takes its first arm whenever x is not None")
        ctx.assume("C06: configuration flags (has_*, out_*, lrn_*, val_*, should_pred, learn_type, eval_type, targets) are assigned once "
                   "before the loop and are loop-invariant; checked: names stored inside the loop are never treated as flags")
        global _SP
        _SP = self
        tasks = [(l, e, h) for l in LEARN for e in EVAL for h in (True, False)]
        jobs = int(os.environ.get("VERIF_JOBS", "0") or 0) or min(16, os.cpu_count() or 1, len(tasks))
        results = []
        if jobs > 1:
            import multiprocessing as mp
            try:
                with mp.get_context("fork").Pool(jobs) as pool:
                    results = pool.map(_work, tasks, chunksize=1)
            except Exception as e:  # pragma: no cover
                ctx.note(f"C06: process pool unavailable ({e}); running sequentially")
                results = [_work(t) for t in tasks]
        else:
            results = [_work(t) for t in tasks]
        n_sig = sum(r[1] for r in results)
        self.n_configs = sum(r[0] for r in results)
        seen = set()
        for _, _, found in results:
            for rule, desc, detail, stmt, line in found:
                if (rule, stmt) in seen:
                    continue
                seen.add((rule, stmt))
                ctx.ob(rule, SEQ, "SequentialCB._results", None, desc, False, detail=detail, stmt=stmt, line=line)
        ctx.configurations = self.n_configs
        ctx.note(f"C06: {self.n_configs} configurations -> {n_sig} distinct pruned control-flow signatures analysed ({jobs} processes)")
        ctx.floor("C06.R1", "distinct specialised CFGs", n_sig, 50)
        for rid, what in (("C06.R1", "definite assignment"), ("C06.R2", "nullness"), ("C06.R3", "provenance"), ("C06.R4", "predict/learn order"),
                          ("C06.R10", "batch marker of recorded learner outputs")):
            ctx.ob(rid, SEQ, "SequentialCB._results", self.loop, f"{what} analysed on {n_sig} specialised CFGs ({self.n_configs} configurations)",
                   True, stmt=f"{what}: coverage", detail={"signatures": n_sig, "configurations": self.n_configs,
                                                            "violations": sum(1 for o in ctx.obs if o.rule == rid and not o.ok)})

    def run_task(self, task):
        learn, eval_, has_score = task
        found = []
        seen = {}
        n = 0
        reported = set()
        for cfg in self.configs(only=task):
            n += 1
            fe = self.flags(cfg)
            sig = self.signature(fe)
            if sig in seen:
                continue
            seen[sig] = cfg
            self.analyse(cfg, fe, reported, found)
        return n, len(seen), found

    def cfg_desc(self, cfg):
        learn, eval_, rec, has_score, batched, discrete, K = cfg
        return {"learn": learn or None, "eval": eval_ or None, "record": sorted(rec), "has_score": has_score, "batched": batched,
                "discrete": discrete, "keys": sorted(K)}

    def analyse(self, cfg, fe, reported, found):
        ctx = _Collector(found)
        fn = self.fn
        g = CFG(fn, test_eval=fe.test)
        reach = g.reachable()
        da = definitely_assigned(g, params=[a.arg for a in fn.args.args])
        loop_nodes = set()
        for x in walk_shallow(self.loop):
            for nid in g.nodes_of(x):
                loop_nodes.add(nid)
        # ---- R1
        for nid in sorted(loop_nodes & reach):
            n = g.nodes[nid]
            if nid not in da:
                continue
            used = self.evaluated_names(n, fe)
            for nm in sorted(used):
                if nm in self.locals and nm not in da[nid]:
                    key = ("R1", nm, n.line)
                    if key in reported:
                        continue
                    reported.add(key)
                    ctx.ob("C06.R1", SEQ, "SequentialCB._results", n.ast if n.kind == "stmt" else n.ast,
                           f"local `{nm}` is assigned on every path before this read", False,
                           detail={"configuration": self.cfg_desc(cfg)}, stmt=f"read of {nm} in: " + unparse(n.ast if n.kind != 'iter' else n.ast.iter)[:100])
        # ---- in-loop value environment (None-ness / terms), straight-line evaluation of the pruned body
        vals, terms, lfe = self.loop_values(g, reach, fe)
        # ---- R2
        for nid in sorted(loop_nodes & reach):
            n = g.nodes[nid]
            a = n.ast if n.kind in ("stmt", "test") else None
            if a is None or isinstance(a, (ast.FunctionDef,)):
                continue
            for e in self.evaluated(a, lfe):
                bad = None
                if isinstance(e, ast.Call) and isinstance(e.func, ast.Name) and vals.get(e.func.id, 1) is None:
                    bad = f"{e.func.id} is None and is called"
                if isinstance(e, ast.Call) and call_name(e) == "len" and e.args and isinstance(e.args[0], ast.Name) and vals.get(e.args[0].id, 1) is None:
                    bad = f"len({e.args[0].id}) with {e.args[0].id} = None"
                if isinstance(e, ast.Subscript) and isinstance(e.value, ast.Name) and isinstance(e.ctx, ast.Load) and vals.get(e.value.id, 1) is None:
                    bad = f"{e.value.id}[...] with {e.value.id} = None"
                if bad:
                    key = ("R2", bad, n.line)
                    if key in reported:
                        continue
                    reported.add(key)
                    ctx.ob("C06.R2", SEQ, "SequentialCB._results", a, "no None value is called / measured / subscripted", False,
                           detail={"why": bad, "configuration": self.cfg_desc(cfg)}, stmt=bad + " in: " + unparse(a)[:100])
        # ---- R3 provenance
        self.provenance(cfg, fe, g, reach, terms, reported, ctx)
        # ---- R4 (dynamic part): predict dominates learn on this CFG
        pred_nodes = [nid for nid in loop_nodes & reach if g.nodes[nid].kind == "stmt" and has_call(g.nodes[nid].ast, "learner.predict")]
        learn_nodes = [nid for nid in loop_nodes & reach if g.nodes[nid].kind == "stmt" and has_call(g.nodes[nid].ast, "learner.learn")]
        learn, eval_ = cfg[0], cfg[1]
        if learn_nodes and learn != "off":
            from ..util import escape_path
            heads = [nid for nid in g.nodes_of(self.loop) if g.nodes[nid].kind == "iter"]
            for ln in learn_nodes:
                ok = all(escape_path(g, h, set(pred_nodes), {ln}, first_labels_skip=("exc", "abandon", "exhausted")) is None for h in heads)
                if not ok and ("R4", "dom") not in reported:
                    reported.add(("R4", "dom"))
                    ctx.ob("C06.R4", SEQ, "SequentialCB._results", g.nodes[ln].ast, "predict dominates learn (within one iteration)", False,
                           detail={"configuration": self.cfg_desc(cfg)})
        if learn and len(learn_nodes) != 1 and ("R4", "nlearn") not in reported:
            reported.add(("R4", "nlearn"))
            ctx.ob("C06.R4", SEQ, "SequentialCB._results", self.loop, "exactly one learn call is reachable per interaction when learn is set", False,
                   detail={"configuration": self.cfg_desc(cfg), "learn_calls": len(learn_nodes)}, stmt="one learn per interaction")
        if not learn and learn_nodes and ("R4", "nolearn") not in reported:
            reported.add(("R4", "nolearn"))
            ctx.ob("C06.R4", SEQ, "SequentialCB._results", self.loop, "learn is not called when learn=None", False,
                   detail={"configuration": self.cfg_desc(cfg)}, stmt="no learn when learn=None")
        if len(pred_nodes) > 1 and ("R4", "npred") not in reported:
            reported.add(("R4", "npred"))
            ctx.ob("C06.R4", SEQ, "SequentialCB._results", self.loop, "at most one predict call per interaction", False,
                   detail={"configuration": self.cfg_desc(cfg)}, stmt="one predict per interaction")
        on_policy = learn in ("on", "ips") or eval_ == "on"
        if on_policy and not pred_nodes and ("R4", "nopred") not in reported:
            reported.add(("R4", "nopred"))
            ctx.ob("C06.R4", SEQ, "SequentialCB._results", self.loop, "an on-policy mode predicts for every interaction", False,
                   detail={"configuration": self.cfg_desc(cfg)}, stmt="predict in on-policy modes")

    # -------------------------------------------------------------------------------------------
    def evaluated(self, a, fe):
        """sub-expressions of statement/test `a` that are evaluated under the configuration (short-circuit aware)."""
        out = []

        def visit(e):
            if isinstance(e, ast.IfExp):
                visit(e.test)
                t = fe.test(e.test)
                if t is not False:
                    visit(e.body)
                if t is not True:
                    visit(e.orelse)
                return
            if isinstance(e, ast.BoolOp):
                is_or = isinstance(e.op, ast.Or)
                for v in e.values:
                    visit(v)
                    t = fe.test(v)
                    if t is not None and t == is_or:
                        break
                return
            if isinstance(e, (ast.Lambda, ast.FunctionDef)):
                return
            if isinstance(e, ast.If):
                visit(e.test)
                return
            out.append(e)
            for c in ast.iter_child_nodes(e):
                visit(c)

        visit(a)
        return out

    def evaluated_names(self, n, fe):
        a = n.ast
        if a is None or n.kind in ("with_exit", "join", "handler"):
            return set()
        if n.kind == "iter":
            a = a.iter
        if isinstance(a, (ast.FunctionDef, ast.ClassDef)):
            return set()
        names = set()
        bound = set()
        for e in self.evaluated(a, fe):
            if isinstance(e, ast.comprehension):
                for t in ast.walk(e.target):
                    if isinstance(t, ast.Name):
                        bound.add(t.id)
        for e in self.evaluated(a, fe):
            if isinstance(e, ast.Name) and isinstance(e.ctx, ast.Load) and e.id not in bound:
                names.add(e.id)
        # augmented assignment reads its target
        if isinstance(a, ast.AugAssign) and isinstance(a.target, ast.Name):
            names.add(a.target.id)
        return names

    def loop_values(self, g, reach, fe):
        """abstract values (None / TOP-truthy / TOP) and provenance terms of names assigned once in the loop body,
        evaluated in statement order on the pruned body."""
        ivar = self.ivar
        vals = {}
        terms = {}

        def opaque(e):
            if isinstance(e, ast.Subscript) and isinstance(e.value, ast.Name) and e.value.id == ivar:
                return Top(truth=True)
            if isinstance(e, ast.Call):
                return Top(truth=None)
            return TOP

        lfe = FlagEval(fe.env, opaque=opaque)
        order = sorted((x for x in walk_shallow(self.loop) if isinstance(x, ast.Assign)), key=lambda s: (s.lineno, s.col_offset))
        for st in order:
            if not any(nid in reach for nid in g.nodes_of(st)):
                continue
            if len(st.targets) != 1:
                continue
            t = st.targets[0]
            if isinstance(t, ast.Name):
                v = lfe.eval(st.value)
                multi = sum(1 for s2 in order if any(isinstance(tt, ast.Name) and tt.id == t.id for tt in s2.targets)
                            and any(nid in reach for nid in g.nodes_of(s2)))
                if multi == 1:
                    vals[t.id] = None if v is None else 1
                    lfe.env[t.id] = v if (v is None or is_top(v)) else v
                    terms[t.id] = self.term(st.value, lfe, terms)
                else:
                    lfe.env[t.id] = TOP
            elif isinstance(t, ast.Tuple) and all(isinstance(x, ast.Name) for x in t.elts):
                base = self.term(st.value, lfe, terms)
                for i, x in enumerate(t.elts):
                    terms[x.id] = f"{base}[{i}]"
                    lfe.env[x.id] = TOP
        return vals, terms, lfe

    def term(self, e, fe, terms):
        if isinstance(e, ast.IfExp):
            t = fe.test(e.test)
            if t is True:
                return self.term(e.body, fe, terms)
            if t is False:
                return self.term(e.orelse, fe, terms)
            return f"ite({unparse(e.test)}, {self.term(e.body, fe, terms)}, {self.term(e.orelse, fe, terms)})"
        if isinstance(e, ast.Name):
            if e.id in terms:
                return terms[e.id]
            v = fe.env.get(e.id, TOP)
            if v is None:
                return "None"
            if isinstance(v, str):
                return repr(v)
            return e.id
        if isinstance(e, ast.Constant):
            return repr(e.value)
        if isinstance(e, ast.Subscript):
            return f"{self.term(e.value, fe, terms)}[{self.term(e.slice, fe, terms)}]"
        if isinstance(e, ast.Call) and unparse(e.func) == "Batch.List" and len(e.args) == 1 and not e.keywords:
            return self.term(e.args[0], fe, terms)  # the batch marker wraps the same values
        if isinstance(e, ast.Call):
            args = [("*" + self.term(a.value, fe, terms)) if isinstance(a, ast.Starred) else self.term(a, fe, terms) for a in e.args]
            args += [(f"**{self.term(k.value, fe, terms)}" if k.arg is None else f"{k.arg}={self.term(k.value, fe, terms)}") for k in e.keywords]
            return f"{self.term(e.func, fe, terms)}({', '.join(args)})"
        if isinstance(e, ast.Attribute):
            return f"{self.term(e.value, fe, terms)}.{e.attr}"
        if isinstance(e, ast.BinOp):
            return f"({self.term(e.left, fe, terms)} {type(e.op).__name__} {self.term(e.right, fe, terms)})"
        return unparse(e)

    def provenance(self, cfg, fe, g, reach, terms, reported, ctx):
        learn, eval_, rec, has_score, batched, discrete, K = cfg
        I = self.ivar
        ctx_t = f"{I}['context']" if "context" in K else "None"
        act_t = f"{I}['actions']" if "actions" in K else "None"
        P = f"learner.predict({ctx_t}, {act_t})"
        lfe = FlagEval(fe.env, opaque=lambda e: TOP)

        def report(tag, node, desc, detail):
            key = ("R3", tag, desc)
            if key in reported:
                return
            reported.add(key)
            ctx.ob("C06.R3", SEQ, "SequentialCB._results", node, desc, False, detail={**detail, "configuration": self.cfg_desc(cfg)},
                   stmt=tag + ": " + unparse(node)[:110])

        # learn call
        for c in walk_shallow(self.loop):
            if not (isinstance(c, ast.Call) and unparse(c.func) == "learner.learn"):
                continue
            st = enclosing_stmt(c)
            if not any(nid in reach for nid in g.nodes_of(st)):
                continue
            args = [self.term(a, lfe, terms) for a in c.args]
            stars = [self.term(k.value, lfe, terms) for k in c.keywords if k.arg is None]
            if learn == "off":
                want = [ctx_t, f"{I}['action']", f"{I}['reward']", f"{I}['probability']" if "probability" in K else "None"]
                if args != want or stars:
                    report("learn(off)", c, "off-policy learn receives the logged context/action/reward/probability", {"got": args + stars, "want": want})
            else:
                rw = f"{I}['rewards']" if learn == "on" else f"{I}['learn_rewards']"
                want = [ctx_t, f"{P}[0]", f"{rw}({P}[0])", f"{P}[1]"]
                if args != want or stars != [f"{P}[2]"]:
                    report(f"learn({learn})", c, "on-policy learn receives (context, predicted action, the environment's reward for that action, "
                           "the learner's probability, **the learner's kwargs) of the same predict call", {"got": args + ["**" + s for s in stars], "want": want + ["**" + P + "[2]"]})
        # recorded values
        want_out = {}
        if eval_:
            vr = f"{I}['rewards']" if eval_ == "on" else (f"{I}['eval_rewards']" if (eval_ == "ips" and learn != "ips") else f"{I}['learn_rewards']")
            should_pred = truth(fe.env.get(self.N_SHOULD, TOP))
            if eval_ == "ips" and has_score and should_pred is False:
                want_out["reward"] = None  # score-based arm, checked structurally below
            else:
                want_out["reward"] = f"{vr}({P}[0])"
            want_out["action"] = f"{P}[0]"
            want_out["probability"] = f"{P}[1]"
        for x in walk_shallow(self.loop):
            if isinstance(x, ast.Assign) and isinstance(x.targets[0], ast.Subscript) and unparse(x.targets[0].value) == self.N_OUT:
                if not any(nid in reach for nid in g.nodes_of(x)):
                    continue
                k = const_str(x.targets[0].slice)
                got = self.term(x.value, lfe, terms)
                if k in want_out and want_out[k] is not None and got != want_out[k]:
                    report(f"out[{k}]", x, f"recorded {k} is the value of this interaction's predict/reward look-up", {"got": got, "want": want_out[k]})
                if k in ("action", "probability") and batched:
                    v = x.value
                    while isinstance(v, ast.IfExp) and lfe.test(v.test) in (True, False):
                        v = v.body if lfe.test(v.test) else v.orelse
                    if not (isinstance(v, ast.Call) and unparse(v.func).startswith("Batch.")):
                        key = ("R10", k)
                        if key not in reported:
                            reported.add(key)
                            ctx.ob("C06.R10", SEQ, "SequentialCB._results", x, f"on batched data the recorded {k} carries the batch marker, so that Unbatch yields one row per interaction "
                                   "whatever else is recorded", False, detail={"configuration": self.cfg_desc(cfg), "value": unparse(x.value)}, stmt=f"batched out[{k}]")
                if k == "reward" and k in want_out and want_out[k] is None:
                    ok = got.startswith("ite(") or ("learner.score(" in got and f"{I}['action']" in got)
                    if not ok:
                        report("out[reward](score)", x, "score-based IPS reward uses learner.score(context, actions, logged action) times the logged reward", {"got": got})
                if k == "context" and got != ctx_t:
                    report("out[context]", x, "recorded context is the interaction's context", {"got": got, "want": ctx_t})
                if k == "actions" and got != act_t:
                    report("out[actions]", x, "recorded actions are the interaction's actions", {"got": got, "want": act_t})


# ================================================================================================
def r4_static(ctx, fn):
    loops = [s for s in fn.body if isinstance(s, ast.For) and unparse(s.iter) == "interactions"]
    loop = loops[0]
    for c in walk_shallow(loop):
        if isinstance(c, ast.Call) and unparse(c.func) in ("learner.predict", "learner.learn", "learner.score"):
            inner = [a for a in ancestors(c) if isinstance(a, (ast.For, ast.While, ast.ListComp, ast.GeneratorExp, ast.Lambda)) and a is not loop
                     and loop in list(ancestors(a))]
            ctx.ob("C06.R4", SEQ, "SequentialCB._results", c, "learner call is not inside an inner loop / comprehension", not inner)
    ys = [y for y in walk_shallow(loop) if isinstance(y, (ast.Yield, ast.YieldFrom))]
    OUT = unparse(ys[0].value) if ys and isinstance(ys[0], ast.Yield) and isinstance(ys[0].value, ast.Name) else "out"
    outdef = [v for v in assigned_value(loop, OUT)]
    ok = len(ys) == 1 and isinstance(ys[0], ast.Yield) and len(outdef) == 1 and isinstance(outdef[0], ast.Dict) and not outdef[0].keys and enclosing_stmt(ys[0]) in loop.body[-1:] + [s for s in walk_shallow(loop.body[-1])]
    ctx.ob("C06.R4", SEQ, "SequentialCB._results", ys[0] if ys else loop, "exactly one row (`out`) is yielded at the end of each iteration", ok, stmt="one yield per interaction")
    if ys:
        g = [unparse(t) for t, p in guards_of(enclosing_stmt(ys[0]), loop)]
        ctx.ob("C06.R4", SEQ, "SequentialCB._results", ys[0], "the row is suppressed only when it is empty", g in ([OUT], []), stmt="yield guard", detail={"guards": g})
    esc = [x for x in walk_shallow(loop) if isinstance(x, (ast.Break, ast.Continue, ast.Return))]
    ctx.ob("C06.R4", SEQ, "SequentialCB._results", loop, "no interaction is skipped (no break/continue/return in the loop)", not esc, stmt="no skip")
    # extra interaction fields carried unchanged
    ups = [c for c in walk_shallow(loop) if isinstance(c, ast.Call) and unparse(c.func) == f"{OUT}.update" and c.args and isinstance(c.args[0], ast.DictComp)]
    ok = False
    for u in ups:
        dc = u.args[0]
        g = dc.generators[0]
        iv = unparse(loop.target)
        ok = unparse(dc.key) == unparse(g.target) and unparse(dc.value) == f"{iv}[{unparse(g.target)}]" and \
            unparse(g.iter) == f"{iv}.keys() - SequentialCB._IMPLICIT_EXCLUDE" and not g.ifs
    ctx.ob("C06.R3", SEQ, "SequentialCB._results", ups[0] if ups else loop, "every interaction field outside _IMPLICIT_EXCLUDE is copied into the row unchanged", ok, stmt="carry extra fields")
    excl = ctx.model.cls(SEQ, "SequentialCB").class_attrs.get("_IMPLICIT_EXCLUDE")
    have = {const_str(e) for e in excl.elts} if isinstance(excl, ast.Set) else set()
    ctx.ob("C06.R3", SEQ, "SequentialCB", excl, "_IMPLICIT_EXCLUDE is exactly the consumed keys (nothing a user adds is swallowed)",
           have == {"context", "actions", "rewards", "action", "reward", "probability", "eval_rewards", "learn_rewards"}, stmt="_IMPLICIT_EXCLUDE")
    # OPE targets agree with the keys read in the loop
    LT = name_bound(fn, lambda v: const_str(v) == "learn_rewards", "learn_target")
    lt = assigned_value(fn, LT)
    ok = len(lt) == 1 and const_str(lt[0]) == "learn_rewards" and any(isinstance(x, ast.Subscript) and unparse(x.slice) == LT for x in walk_shallow(loop))
    opes = sorted((c for c in walk_shallow(fn) if isinstance(c, ast.Call) and call_name(c) == "OpeRewards"), key=lambda c: c.lineno)
    tg = [const_str(kw(c, "target")) for c in opes]
    ctx.ob("C06.R3", SEQ, "SequentialCB._results", fn, "OPE reward targets written by OpeRewards are the keys the loop reads", ok and tg == ["learn_rewards", "eval_rewards"],
           stmt="ope targets", detail={"targets": tg})


def r6_wiring(ctx):
    ctx.rule("C06.R6", "evaluate(): _validate dominates _results, interactions pass BatchSafe(Finalize()) before and Unbatch after")
    fn = ctx.fn(SEQ, "SequentialCB.evaluate")
    g = CFG(fn)
    dom = g.dominators()
    val = [n.id for n in g.nodes if n.kind == "stmt" and has_call(n.ast, "self._validate")]
    res = [n.id for n in g.nodes if n.kind == "stmt" and has_call(n.ast, "self._results")]
    ctx.floor("C06.R6", "_results call in evaluate", len(res), 1)
    for r in res:
        ctx.ob("C06.R6", SEQ, "SequentialCB.evaluate", g.nodes[r].ast, "_validate dominates _results", any(v in dom[r] for v in val))
        c = find_calls(g.nodes[r].ast, "self._results")[0]
        a2 = c.args[2] if len(c.args) > 2 else None
        peek = [x for x in walk_shallow(fn) if isinstance(x, ast.Assign) and isinstance(x.targets[0], ast.Tuple) and len(x.targets[0].elts) == 2 and has_call(x.value, "peek_first")]
        FIRST, REST = (unparse(peek[0].targets[0].elts[0]), unparse(peek[0].targets[0].elts[1])) if peek else ("first", "interactions")
        ok = a2 is not None and unparse(a2) == f"BatchSafe(Finalize()).filter({REST})" and bool(peek) and unparse(peek[0].value) == "peek_first(environment.read())"
        ctx.ob("C06.R6", SEQ, "SequentialCB.evaluate", c, "interactions are finalised (BatchSafe(Finalize())) before evaluation", ok, stmt="finalize before _results")
        ctx.ob("C06.R6", SEQ, "SequentialCB.evaluate", c, "_results gets the SafeLearner and the peeked first interaction",
               len(c.args) >= 2 and unparse(c.args[0]) == "learner" and unparse(c.args[1]) == FIRST, stmt="_results args")
    for v in val:
        c = find_calls(g.nodes[v].ast, "self._validate")[0]
        peek = [x for x in walk_shallow(fn) if isinstance(x, ast.Assign) and isinstance(x.targets[0], ast.Tuple) and len(x.targets[0].elts) == 2 and has_call(x.value, "peek_first")]
        FIRST = unparse(peek[0].targets[0].elts[0]) if peek else "first"
        ctx.ob("C06.R6", SEQ, "SequentialCB.evaluate", c, "_validate checks the first interaction with the learner's has_score",
               [unparse(a) for a in c.args] == [FIRST, "learner.has_score"])
    ys = [y for y in walk_shallow(fn) if isinstance(y, (ast.Yield, ast.YieldFrom))]
    RES_ = name_bound(fn, lambda v: has_call(v, "self._results"), "results")
    ok = len(ys) == 1 and isinstance(ys[0], ast.YieldFrom) and unparse(ys[0].value) == f"Unbatch().filter({RES_})"
    ctx.ob("C06.R6", SEQ, "SequentialCB.evaluate", ys[0] if ys else fn, "rows are un-batched (one row per interaction) on the way out", ok, stmt="unbatch results")
    # _validate raises when something required is missing
    vf = ctx.fn(SEQ, "SequentialCB._validate")
    RK = name_bound(vf, lambda v: unparse(v) == "self._required(has_score)", "required_keys")
    MK = name_bound(vf, lambda v: unparse(v) == f"{RK} - first.keys()", "missing_keys")
    mk = assigned_value(vf, MK)
    ok = len(mk) == 1 and unparse(mk[0]) == f"{RK} - first.keys()" and any(
        isinstance(x, ast.If) and unparse(x.test) == MK and any(isinstance(y, ast.Raise) for y in x.body) for x in walk_shallow(vf))
    rk = assigned_value(vf, RK)
    ok = ok and len(rk) == 1 and unparse(rk[0]) == "self._required(has_score)"
    ctx.ob("C06.R6", SEQ, "SequentialCB._validate", vf, "an environment lacking a required key is rejected with an exception", ok, stmt="_validate raises")
    init = ctx.fn(SEQ, "SequentialCB.__init__")
    for f, src in (("_learn", "learn or ''"), ("_eval", "eval or ''")):
        st = [x for x in walk_shallow(init) if isinstance(x, ast.Assign) and any(is_self_attr(t, f) for t in x.targets)]
        ctx.ob("C06.R6", SEQ, "SequentialCB.__init__", st[0] if st else init, f"self.{f} normalises None to ''", bool(st) and unparse(st[0].value) == src, stmt=f"self.{f}")


CONTROLS = [
    ("Unbatch looks at the first value only", "coba/environments/filters.py", M.replace_expr("Unbatch.filter", "batched_keys", "is_batch(next(iter(first.values()), None))", nth=0) if False else
        M.replace_stmt("Unbatch.filter", lambda st: isinstance(st, ast.If) and ast.unparse(st.test) == "batched_keys", "if is_batch(next(iter(first.values()), None)):\n    yield from self._unbatch(interactions, batched_keys)\nelse:\n    yield from interactions"), "C06.R17"),
    ("IPS decides from the first interaction whether probabilities exist", "coba/environments/filters.py", M.chain(
        M.insert_before("OpeRewards.filter", lambda st: isinstance(st, ast.If), "has_prob = True"),
        M.replace_expr("OpeRewards.filter", "interaction.get('probability') or 1", "has_prob and interaction.get('probability') or 1")), "C06.R16"),
    ("a reward value of 0 is read as 'not given'", "coba/primitives.py", M.replace_stmt("BinaryReward.__init__", M.text_has("self._value"), "self._value = value or 1.0"), "C06.R15"),
    ("choicew looks the weight up by equality", "coba/random.py", M.replace_expr("CobaRandom.choicew", "(seq[i], weights[i])", "(seq[i], weights[seq.index(seq[i])])"), "C06.R12"),
    ("positional rewards shortcut guarded by length only", "coba/environments/filters.py", M.replace_expr("Repr.filter", "old[target].actions == old['actions']", "len(old[target].actions) == len(old['actions'])"), "C06.R13"),
    ("recorded action loses the batch marker", SEQ, M.replace_expr("SequentialCB._results", "on_act if not batched else Batch.List(on_act)", "on_act"), "C06.R10"),
    ("identity test dropped before the PMF look-alike", "coba/safety.py", M.delete_stmt("SafeLearner.pred_format", M.text_has("if any((std_pred[0] is action for action in actions)): return 'AX'")), "C06.R8"),
    ("Repr memo keyed by the first action only", "coba/environments/filters.py", M.replace_expr("Repr.filter", "row != prev_row", "prev_row is None or row[0] != prev_row[0]"), "C06.R9"),
    ("learn with logged prob", SEQ, M.replace_expr("SequentialCB._results", "learner.learn(context, on_act, learn_reward, on_pr, **on_kw)",
                                                    "learner.learn(context, on_act, learn_reward, off_pr, **on_kw)"), "C06.R3"),
    ("drop kwargs", SEQ, M.replace_expr("SequentialCB._results", "learner.learn(context, on_act, learn_reward, on_pr, **on_kw)",
                                         "learner.learn(context, on_act, learn_reward, on_pr)"), "C06.R3"),
    ("pred_time uninitialised", SEQ, M.replace_stmt("SequentialCB._results", M.text_has("pred_time = time.time() - start"),
                                                     "if should_pred: pred_time = time.time() - start"), "C06.R1"),
    ("required drops rewards for eval", SEQ, M.replace_expr("SequentialCB._required", "learn == 'on' or eval == 'on'", "learn == 'on'"), "C06.R2"),
    ("learn before predict", SEQ, M.replace_stmt("SequentialCB._results", M.text_has("if should_pred: on_act"),
                                                  "if should_pred and not learn: on_act, on_pr, on_kw = learner.predict(context, actions)"), "C06.R1"),
    ("record logged action", SEQ, M.replace_expr("SequentialCB._results", "on_act", "off_act", nth=4), "C06.R3"),
    ("skip finalize", SEQ, M.replace_expr("SequentialCB.evaluate", "BatchSafe(Finalize()).filter(interactions)", "interactions"), "C06.R6"),
]
