"""Partial evaluator for the 'flag language' used in coba's hot loops (DESIGN.md 3.4 / A.2)
and a small interval domain with open/closed end points (DESIGN.md A.5).

Constant propagation over finite domains only: no solver, nothing from coba is executed.
"""
import ast
from fractions import Fraction
from typing import Any, Callable, Dict, Optional


class Top:
    """Unknown value, optionally with known truthiness."""
    __slots__ = ("truth",)

    def __init__(self, truth: Optional[bool] = None):
        self.truth = truth

    def __repr__(self):
        return "TOP" if self.truth is None else f"TOP[{'truthy' if self.truth else 'falsy'}]"


TOP = Top()


def is_top(v) -> bool:
    return isinstance(v, Top)


def truth(v) -> Optional[bool]:
    if isinstance(v, Top):
        return v.truth
    try:
        return bool(v)
    except Exception:  # pragma: no cover
        return None


class FlagEval:
    """env: name -> constant | frozenset | Top.  Keys may be plain names ('learn'),
    'self._attr', or the unparsed text of an opaque expression ("learner.has_score")."""

    def __init__(self, env: Dict[str, Any], opaque: Callable[[ast.AST], Any] = None):
        self.env = dict(env)
        self.opaque = opaque

    def eval(self, e: ast.AST):
        if isinstance(e, (ast.Attribute, ast.Subscript, ast.Call)):
            txt = getattr(e, "_txt_memo", None)
            if txt is None:
                try:
                    txt = ast.unparse(e)
                    e._txt_memo = txt
                except Exception:  # pragma: no cover
                    txt = None
            if txt is not None and txt in self.env:
                return self.env[txt]
        if isinstance(e, ast.Constant):
            return e.value
        if isinstance(e, ast.Name):
            return self.env.get(e.id, TOP)
        if isinstance(e, ast.Attribute):
            return self._opaque(e)
        if isinstance(e, ast.UnaryOp) and isinstance(e.op, ast.Not):
            t = truth(self.eval(e.operand))
            return TOP if t is None else (not t)
        if isinstance(e, ast.BoolOp):
            is_or = isinstance(e.op, ast.Or)
            unknown = False
            last = TOP
            for v_ast in e.values:
                v = self.eval(v_ast)
                t = truth(v)
                last = v
                if t is None:
                    unknown = True
                    continue
                if t == is_or:  # short-circuit value
                    if not unknown:
                        return v
                    return Top(truth=is_or)  # some earlier unknown or this: truthiness fixed
            if unknown:
                # no known operand short-circuited: result is one of the unknown operands or the last
                return TOP
            return last
        if isinstance(e, ast.IfExp):
            t = truth(self.eval(e.test))
            if t is True:
                return self.eval(e.body)
            if t is False:
                return self.eval(e.orelse)
            a, b = self.eval(e.body), self.eval(e.orelse)
            if not is_top(a) and not is_top(b) and type(a) == type(b) and a == b:
                return a
            ta, tb = truth(a), truth(b)
            return Top(truth=ta if ta == tb else None)
        if isinstance(e, ast.Compare) and len(e.ops) == 1:
            l, r = self.eval(e.left), self.eval(e.comparators[0])
            op = e.ops[0]
            if isinstance(op, (ast.Is, ast.IsNot)):
                if is_top(l) or is_top(r):
                    # `x is None` with x known truthy -> False
                    if r is None and is_top(l) and l.truth is True:
                        return isinstance(op, ast.IsNot)
                    return TOP
                res = (l is r) if (l is None or r is None or isinstance(l, bool) or isinstance(r, bool)) else (l == r)
                return res if isinstance(op, ast.Is) else not res
            if is_top(l) or is_top(r):
                return TOP
            try:
                if isinstance(op, ast.Eq):
                    return l == r
                if isinstance(op, ast.NotEq):
                    return l != r
                if isinstance(op, ast.In):
                    return l in r
                if isinstance(op, ast.NotIn):
                    return l not in r
                if isinstance(op, ast.Lt):
                    return l < r
                if isinstance(op, ast.LtE):
                    return l <= r
                if isinstance(op, ast.Gt):
                    return l > r
                if isinstance(op, ast.GtE):
                    return l >= r
            except TypeError:
                return TOP
            return TOP
        if isinstance(e, (ast.Tuple, ast.List, ast.Set)):
            vals = [self.eval(x) for x in e.elts]
            if any(is_top(v) for v in vals):
                return Top(truth=bool(vals))
            try:
                return tuple(vals) if not isinstance(e, ast.Set) else frozenset(vals)
            except TypeError:
                return Top(truth=bool(vals))
        if isinstance(e, ast.Subscript):
            base = self.eval(e.value)
            if isinstance(base, (str, tuple)):
                try:
                    idx = self._slice(e.slice)
                    if idx is not None:
                        return base[idx]
                except Exception:
                    return TOP
            return self._opaque(e)
        if isinstance(e, ast.Call):
            # pure string methods on known constants
            if isinstance(e.func, ast.Attribute) and not e.keywords:
                base = self.eval(e.func.value)
                if isinstance(base, str) and e.func.attr in ("lower", "upper", "strip", "rstrip", "lstrip", "endswith", "startswith", "splitlines", "isspace"):
                    args = [self.eval(a) for a in e.args]
                    if not any(is_top(a) for a in args):
                        try:
                            r = getattr(base, e.func.attr)(*args)
                            return tuple(r) if isinstance(r, list) else r  # constant folding of a pure str method
                        except Exception:
                            return TOP
            return self._opaque(e)
        return self._opaque(e)

    def _slice(self, s: ast.AST):
        if isinstance(s, ast.Slice):
            parts = []
            for p in (s.lower, s.upper, s.step):
                if p is None:
                    parts.append(None)
                else:
                    v = self.eval(p)
                    if is_top(v):
                        return None
                    parts.append(v)
            return slice(*parts)
        v = self.eval(s)
        return None if is_top(v) else v

    def _opaque(self, e: ast.AST):
        if self.opaque is not None:
            return self.opaque(e)
        return TOP

    def test(self, e: ast.AST) -> Optional[bool]:
        return truth(self.eval(e))

    def run_prelude(self, stmts, stop_at: ast.AST = None):
        """Evaluate simple `name = flag-expr` / `a,b = x,y` assignments in order; other
        statements invalidate the names they assign (set to TOP)."""
        for st in stmts:
            if st is stop_at:
                break
            if isinstance(st, ast.Assign) and len(st.targets) == 1:
                t = st.targets[0]
                if isinstance(t, ast.Name):
                    self.env[t.id] = self.eval(st.value)
                    continue
                if isinstance(t, ast.Tuple) and isinstance(st.value, ast.Tuple) and len(t.elts) == len(st.value.elts) \
                        and all(isinstance(x, ast.Name) for x in t.elts):
                    vals = [self.eval(v) for v in st.value.elts]
                    for x, v in zip(t.elts, vals):
                        self.env[x.id] = v
                    continue
            for n in ast.walk(st):
                if isinstance(n, ast.Name) and isinstance(n.ctx, (ast.Store, ast.Del)):
                    self.env[n.id] = TOP
        return self


# ============================================================================ intervals
class Sym:
    """Linear form c0 + sum(ci * sym_i) with Fraction coefficients over named symbols."""
    __slots__ = ("c", "t")

    def __init__(self, c=0, t=None):
        self.c = Fraction(c)
        self.t = {k: Fraction(v) for k, v in (t or {}).items() if v != 0}

    @staticmethod
    def var(name):
        return Sym(0, {name: 1})

    def __add__(self, o):
        o = o if isinstance(o, Sym) else Sym(o)
        t = dict(self.t)
        for k, v in o.t.items():
            t[k] = t.get(k, 0) + v
        return Sym(self.c + o.c, t)

    def __neg__(self):
        return Sym(-self.c, {k: -v for k, v in self.t.items()})

    def __sub__(self, o):
        o = o if isinstance(o, Sym) else Sym(o)
        return self + (-o)

    def scale(self, f):
        f = Fraction(f)
        return Sym(self.c * f, {k: v * f for k, v in self.t.items()})

    def is_const(self):
        return not self.t

    def __eq__(self, o):
        o = o if isinstance(o, Sym) else Sym(o)
        return self.c == o.c and self.t == o.t

    def __hash__(self):
        return hash((self.c, tuple(sorted(self.t.items()))))

    def __repr__(self):
        parts = []
        for k, v in sorted(self.t.items()):
            parts.append(("" if v == 1 else "-" if v == -1 else f"{v}*") + k)
        if self.c != 0 or not parts:
            parts.append(str(self.c))
        return "+".join(parts).replace("+-", "-")


class Itv:
    """Interval [lo, hi] over Sym end points with strictness bits; `integer` marks integrality."""
    __slots__ = ("lo", "hi", "lo_open", "hi_open", "integer")

    def __init__(self, lo, hi, lo_open=False, hi_open=False, integer=False):
        self.lo = lo if isinstance(lo, Sym) else Sym(lo)
        self.hi = hi if isinstance(hi, Sym) else Sym(hi)
        self.lo_open, self.hi_open, self.integer = lo_open, hi_open, integer

    def __repr__(self):
        return f"{'(' if self.lo_open else '['}{self.lo}, {self.hi}{')' if self.hi_open else ']'}{'Z' if self.integer else ''}"

    def __eq__(self, o):
        return isinstance(o, Itv) and (self.lo, self.hi, self.lo_open, self.hi_open) == (o.lo, o.hi, o.lo_open, o.hi_open)

    def shift(self, s):
        s = s if isinstance(s, Sym) else Sym(s)
        return Itv(self.lo + s, self.hi + s, self.lo_open, self.hi_open, self.integer)

    def scale_pos_sym(self, s: Sym):
        """multiply by a strictly positive symbolic quantity `s`; only defined when the
        interval end points are constants (c * s)."""
        if not (self.lo.is_const() and self.hi.is_const()):
            return None
        return Itv(s.scale(self.lo.c), s.scale(self.hi.c), self.lo_open, self.hi_open, False)

    def floor_int(self):
        """floor of [0, K) with K an integer-valued form -> [0, K-1] integers; of [0,K] -> [0,K]."""
        hi = self.hi - 1 if self.hi_open else self.hi
        return Itv(self.lo, hi, False, False, True)
