"""Exact identity testing of small arithmetic expressions taken from the analysed source.

An expression AST over + - * / ** (integer exponent) is a rational function of its free names; two such functions that
agree at enough points in exact rational arithmetic are identical (Schwartz-Zippel; we use many more points than the
degree of anything in the repo).  Only the *expression* is evaluated, over Fractions -- no code of the repo runs."""
import ast
from fractions import Fraction

PRIMES = [2, 3, 5, 7, 11, 13, 17, 19, 23, 29, 31, 37, 41, 43, 47, 53, 59, 61, 67, 71]


class NotArithmetic(Exception):
    pass


def ev(e, env):
    if isinstance(e, ast.Constant) and isinstance(e.value, (int, float)) and not isinstance(e.value, bool):
        return Fraction(e.value) if isinstance(e.value, int) else Fraction(str(e.value))
    if isinstance(e, ast.Name):
        if e.id in env:
            v = env[e.id]
            return ev(v, env) if isinstance(v, ast.AST) else v
        raise NotArithmetic(f"free name {e.id}")
    if isinstance(e, ast.UnaryOp) and isinstance(e.op, (ast.USub, ast.UAdd)):
        v = ev(e.operand, env)
        return -v if isinstance(e.op, ast.USub) else v
    if isinstance(e, ast.BinOp):
        a, b = ev(e.left, env), ev(e.right, env)
        if isinstance(e.op, ast.Add):
            return a + b
        if isinstance(e.op, ast.Sub):
            return a - b
        if isinstance(e.op, ast.Mult):
            return a * b
        if isinstance(e.op, ast.Div):
            if b == 0:
                raise ZeroDivisionError
            return a / b
        if isinstance(e.op, ast.Pow) and b.denominator == 1 and abs(b) <= 8:
            if a == 0 and b < 0:
                raise ZeroDivisionError
            return a ** int(b)
    raise NotArithmetic(type(e).__name__)


def free_names(e):
    return sorted({n.id for n in ast.walk(e) if isinstance(n, ast.Name)})


def identically_zero(e, subst=None, points=12):
    """True / False, or None when the expression is not plain arithmetic."""
    subst = subst or {}
    names = sorted(set(free_names(e)) | {n for v in subst.values() if isinstance(v, ast.AST) for n in free_names(v)} - set(subst))
    names = [n for n in names if n not in subst]
    done = 0
    for k in range(points * 3):
        env = {n: Fraction(PRIMES[(i * 7 + k * 3) % len(PRIMES)], PRIMES[(i * 5 + k + 1) % len(PRIMES)]) for i, n in enumerate(names)}
        env.update(subst)
        try:
            if ev(e, env) != 0:
                return False
            done += 1
        except ZeroDivisionError:
            continue
        except NotArithmetic:
            return None
        if done >= points:
            break
    return True if done else None
