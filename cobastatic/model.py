"""Program model of /repo's `coba` package: parsed modules, import resolution,
class hierarchy (computed, never listed), anchor look-up by qualified name.

Nothing here imports or executes coba.  Only `ast` is used.
"""
import ast
import hashlib
import os
import warnings
from typing import Dict, List, Optional, Tuple, Iterable

REPO = os.environ.get("COBA_REPO", "/repo")


class AnalysisError(Exception):
    """The analyser cannot do its job (anchor vanished, unparsable file ...): exit 2."""


class Module:
    def __init__(self, rel: str, src: str):
        self.rel = rel
        self.src = src
        self.digest = hashlib.sha256(src.encode("utf-8")).hexdigest()
        try:
            with warnings.catch_warnings():
                warnings.simplefilter("ignore")
                self.tree = ast.parse(src, filename=rel)
        except SyntaxError as e:  # pragma: no cover
            raise AnalysisError(f"cannot parse {rel}: {e}")
        _normalise_annotations(self.tree)
        _strip_noops(self.tree)
        if os.environ.get("COBASTATIC_CANON_CMP", "1") != "0":
            _normalise_comparisons(self.tree)
        if os.environ.get("COBASTATIC_CANON_RET", "1") != "0":
            _inline_return_temporaries(self.tree)
        if os.environ.get("COBASTATIC_CANON_AUG", "1") != "0":
            _fold_numeric_increments(self.tree)
        if os.environ.get("COBASTATIC_CANON_IF", "1") != "0":
            _orient_two_armed_conditionals(self.tree)
        for parent in ast.walk(self.tree):
            for child in ast.iter_child_nodes(parent):
                child._parent = parent  # type: ignore[attr-defined]
        self.tree._parent = None  # type: ignore[attr-defined]
        self.dotted = rel[:-3].replace("/", ".")
        if self.dotted.endswith(".__init__"):
            self.dotted = self.dotted[: -len(".__init__")]
        self.is_pkg = rel.endswith("__init__.py")
        # name -> dotted target ("coba.pipes.filters.Shuffle" or "coba.pipes")
        self.imports: Dict[str, str] = {}
        self.star_imports: List[str] = []
        self._collect_imports()

    def _collect_imports(self):
        for node in ast.walk(self.tree):
            if isinstance(node, ast.Import):
                for a in node.names:
                    if a.asname:
                        self.imports[a.asname] = a.name
                    else:
                        self.imports[a.name.split(".")[0]] = a.name.split(".")[0]
            elif isinstance(node, ast.ImportFrom):
                base = node.module or ""
                if node.level:
                    pkg = self.dotted if self.is_pkg else self.dotted.rsplit(".", 1)[0]
                    parts = pkg.split(".")
                    if node.level > 1:
                        parts = parts[: -(node.level - 1)]
                    base = ".".join(parts + ([node.module] if node.module else []))
                for a in node.names:
                    if a.name == "*":
                        self.star_imports.append(base)
                    else:
                        self.imports[a.asname or a.name] = base + "." + a.name


def _normalise_annotations(tree: ast.AST) -> None:
    """inside function bodies `x: T = v` becomes `x = v` and a bare `x: T` disappears (type annotations on locals and
    on self attributes have no run-time effect), so rules see one assignment form."""
    for fn in ast.walk(tree):
        if not isinstance(fn, (ast.FunctionDef, ast.AsyncFunctionDef)):
            continue
        for n in ast.walk(fn):
            for field in ("body", "orelse", "finalbody"):
                b = getattr(n, field, None)
                if not (isinstance(b, list) and b and all(isinstance(x, ast.stmt) for x in b)):
                    continue
                out = []
                for x in b:
                    if isinstance(x, ast.AnnAssign):
                        if x.value is None:
                            continue
                        a = ast.Assign(targets=[x.target], value=x.value)
                        ast.copy_location(a, x)
                        a.end_lineno, a.end_col_offset = getattr(x, "end_lineno", x.lineno), getattr(x, "end_col_offset", 0)
                        out.append(a)
                    else:
                        out.append(x)
                if not out:
                    out = [ast.copy_location(ast.Pass(), b[0])]
                b[:] = out


def _fold_numeric_increments(tree: ast.AST) -> None:
    """`x = x + c` / `x = c + x` / `x = x - c` with a plain name x and a numeric literal c becomes `x += c` / `x -= c` (numbers have no in-place addition, the two
    spellings are one statement): rules that look for a counter being advanced see one spelling."""
    for parent_ in ast.walk(tree):
        for field in ("body", "orelse", "finalbody"):
            stmts = getattr(parent_, field, None)
            if not isinstance(stmts, list):
                continue
            for i, st in enumerate(stmts):
                if not (isinstance(st, ast.Assign) and len(st.targets) == 1 and isinstance(st.targets[0], ast.Name) and isinstance(st.value, ast.BinOp)
                        and isinstance(st.value.op, (ast.Add, ast.Sub))):
                    continue
                x, l, r = st.targets[0].id, st.value.left, st.value.right

                def num(e):
                    return isinstance(e, ast.Constant) and isinstance(e.value, (int, float)) and not isinstance(e.value, bool)
                if isinstance(l, ast.Name) and l.id == x and num(r):
                    c = r
                elif isinstance(st.value.op, ast.Add) and isinstance(r, ast.Name) and r.id == x and num(l):
                    c = l
                else:
                    continue
                new = ast.AugAssign(target=ast.Name(x, ast.Store()), op=st.value.op, value=c)
                ast.copy_location(new, st)
                ast.copy_location(new.target, st.targets[0])
                new.end_lineno, new.end_col_offset = getattr(st, "end_lineno", st.lineno), getattr(st, "end_col_offset", 0)
                stmts[i] = new


def _orient_two_armed_conditionals(tree: ast.AST) -> None:
    """`if not c: B else: A` becomes `if c: A else: B` (two-armed ifs that are not elif chains), `y if not c else x` becomes `x if c else y`:
    which arm is written first carries no meaning, so the rules see one orientation."""
    for n in ast.walk(tree):
        if isinstance(n, ast.If) and n.orelse and not (len(n.orelse) == 1 and isinstance(n.orelse[0], ast.If)) \
                and isinstance(n.test, ast.UnaryOp) and isinstance(n.test.op, ast.Not):
            n.test, n.body, n.orelse = n.test.operand, n.orelse, n.body
        elif isinstance(n, ast.IfExp) and isinstance(n.test, ast.UnaryOp) and isinstance(n.test.op, ast.Not):
            n.test, n.body, n.orelse = n.test.operand, n.orelse, n.body


def _inline_return_temporaries(tree: ast.AST) -> None:
    """`t = <expr>` immediately followed by `return t` becomes `return <expr>` when `t` is a local whose every store and every load in the
    function belongs to such a pair (the 'introduce variable' / 'inline variable' refactorings are invisible to the rules)."""
    for fn in ast.walk(tree):
        if not isinstance(fn, (ast.FunctionDef, ast.AsyncFunctionDef)):
            continue
        loads, stores = {}, {}
        for n in ast.walk(fn):
            if isinstance(n, ast.Name):
                d = loads if isinstance(n.ctx, ast.Load) else stores
                d[n.id] = d.get(n.id, 0) + 1
        params = {a.arg for a in fn.args.args + fn.args.kwonlyargs + fn.args.posonlyargs}
        pairs = {}
        for n in ast.walk(fn):
            for field in ("body", "orelse", "finalbody"):
                b = getattr(n, field, None)
                if not (isinstance(b, list) and len(b) >= 2 and all(isinstance(x, ast.stmt) for x in b)):
                    continue
                for i in range(len(b) - 1):
                    a, r = b[i], b[i + 1]
                    if isinstance(a, ast.Assign) and len(a.targets) == 1 and isinstance(a.targets[0], ast.Name) and isinstance(r, ast.Return) \
                            and isinstance(r.value, ast.Name) and r.value.id == a.targets[0].id and a.targets[0].id not in params \
                            and not any(isinstance(y, ast.Name) and y.id == a.targets[0].id for y in ast.walk(a.value)):
                        pairs.setdefault(a.targets[0].id, []).append((b, a, r))
        for name, ps in pairs.items():
            if loads.get(name, 0) != len(ps) or stores.get(name, 0) != len(ps):
                continue
            for b, a, r in ps:
                i = b.index(a)
                new = ast.Return(value=a.value)
                ast.copy_location(new, a)
                new.end_lineno, new.end_col_offset = getattr(r, "end_lineno", r.lineno), getattr(r, "end_col_offset", 0)
                b[i:i + 2] = [new]


_SWAP = {ast.Lt: ast.Gt, ast.Gt: ast.Lt, ast.LtE: ast.GtE, ast.GtE: ast.LtE, ast.Eq: ast.Eq, ast.NotEq: ast.NotEq}


def _is_literal(e) -> bool:
    if isinstance(e, ast.Constant):
        return True
    if isinstance(e, ast.UnaryOp) and isinstance(e.operand, ast.Constant):
        return True
    if isinstance(e, (ast.List, ast.Tuple, ast.Set)):
        return all(_is_literal(x) for x in e.elts)
    if isinstance(e, ast.Dict):
        return all(k is not None and _is_literal(k) for k in e.keys) and all(_is_literal(v) for v in e.values)
    return False


def _normalise_comparisons(tree: ast.AST) -> None:
    """One orientation for every single-operator order / equality comparison, so that `a < b` and `b > a` (or `x == 1` and `1 == x`)
    are the same to every rule: a constant operand goes to the right; otherwise the operand whose source text sorts first goes to the left.
    Exchanging the operands of ==, !=, <, <=, >, >= (with the mirrored operator) does not change the value of a comparison."""
    for n in ast.walk(tree):
        if isinstance(n, ast.Compare) and len(n.ops) == 1 and type(n.ops[0]) in _SWAP:
            l, r = n.left, n.comparators[0]
            lc, rc = _is_literal(l), _is_literal(r)
            if lc and not rc:
                flip = True
            elif rc and not lc:
                flip = False
            else:
                try:
                    flip = ast.unparse(l) > ast.unparse(r)
                except Exception:  # pragma: no cover
                    flip = False
            if flip:
                n.left, n.comparators = r, [l]
                n.ops = [_SWAP[type(n.ops[0])]()]


def _strip_noops(tree: ast.AST) -> None:
    """semantics-preserving normalisation applied to every parsed module: `pass` statements and bare string-constant
    expression statements (docstrings, string comments) are dropped from any body that has other statements, so that no
    rule depends on their presence or position."""
    for n in ast.walk(tree):
        for field in ("body", "orelse", "finalbody"):
            b = getattr(n, field, None)
            if isinstance(b, list) and len(b) > 1 and all(isinstance(x, ast.stmt) for x in b):
                keep = [x for x in b if not (isinstance(x, ast.Pass) or (isinstance(x, ast.Expr) and isinstance(x.value, ast.Constant)
                                                                        and isinstance(x.value.value, (str, type(Ellipsis)))))]
                if keep and len(keep) != len(b):
                    b[:] = keep


class ClassInfo:
    def __init__(self, module: Module, node: ast.ClassDef, qual: str):
        self.module = module
        self.rel = module.rel
        self.node = node
        self.name = node.name
        self.qual = qual  # e.g. "CobaMultiprocessor.ProcessFilter"
        self.methods: Dict[str, ast.FunctionDef] = {}
        self.class_attrs: Dict[str, ast.AST] = {}
        for st in node.body:
            if isinstance(st, (ast.FunctionDef, ast.AsyncFunctionDef)):
                self.methods[st.name] = st
            elif isinstance(st, ast.Assign):
                for t in st.targets:
                    if isinstance(t, ast.Name):
                        self.class_attrs[t.id] = st.value
        self.bases: List["ClassInfo"] = []  # resolved coba bases
        self.base_names: List[str] = []     # textual, all bases

    @property
    def key(self) -> Tuple[str, str]:
        return (self.rel, self.qual)

    def __repr__(self):
        return f"<{self.rel}::{self.qual}>"


def _strip_subscript(e: ast.AST) -> ast.AST:
    while isinstance(e, ast.Subscript):
        e = e.value
    return e


def dotted_name(e: ast.AST) -> Optional[str]:
    """`a.b.c` -> "a.b.c" for Name/Attribute chains, else None."""
    parts = []
    while isinstance(e, ast.Attribute):
        parts.append(e.attr)
        e = e.value
    if isinstance(e, ast.Name):
        parts.append(e.id)
        return ".".join(reversed(parts))
    return None


class Model:
    def __init__(self, repo: str = None, overlay: Dict[str, str] = None, base: "Model" = None):
        """overlay: rel path -> replacement source (used by positive controls/self-tests);
        base: an already loaded model of the same tree whose parsed modules are reused for files not in the overlay."""
        self.repo = repo or REPO
        self.modules: Dict[str, Module] = {}
        self.by_dotted: Dict[str, Module] = {}
        pkg = os.path.join(self.repo, "coba")
        if not os.path.isdir(pkg):
            raise AnalysisError(f"no coba package under {self.repo}")
        for root, dirs, files in os.walk(pkg):
            dirs[:] = sorted(d for d in dirs if d not in ("tests", "__pycache__"))
            for f in sorted(files):
                if not f.endswith(".py"):
                    continue
                full = os.path.join(root, f)
                rel = os.path.relpath(full, self.repo)
                if overlay and rel in overlay:
                    src = overlay[rel]
                elif base is not None and rel in base.modules:
                    self.modules[rel] = base.modules[rel]
                    self.by_dotted[base.modules[rel].dotted] = base.modules[rel]
                    continue
                else:
                    with open(full, encoding="utf-8") as fh:
                        src = fh.read()
                m = Module(rel, src)
                self.modules[rel] = m
                self.by_dotted[m.dotted] = m
        if overlay:
            for rel, src in overlay.items():
                if rel not in self.modules:
                    m = Module(rel, src)
                    self.modules[rel] = m
                    self.by_dotted[m.dotted] = m
        self.classes: List[ClassInfo] = []
        self.class_index: Dict[Tuple[str, str], ClassInfo] = {}
        self.functions: Dict[Tuple[str, str], ast.FunctionDef] = {}
        for m in self.modules.values():
            self._index(m, m.tree.body, "")
        for c in self.classes:
            self._resolve_bases(c)
        self._subs: Dict[Tuple[str, str], List[ClassInfo]] = {}
        for c in self.classes:
            for b in c.bases:
                self._subs.setdefault(b.key, []).append(c)

    # ------------------------------------------------------------------ indexing
    def _index(self, m: Module, body: Iterable[ast.AST], prefix: str):
        for st in body:
            if isinstance(st, ast.ClassDef):
                qual = prefix + st.name
                c = ClassInfo(m, st, qual)
                self.classes.append(c)
                self.class_index[(m.rel, qual)] = c
                for name, fn in c.methods.items():
                    self.functions[(m.rel, qual + "." + name)] = fn
                    fn._qual = qual + "." + name  # type: ignore[attr-defined]
                    fn._rel = m.rel  # type: ignore[attr-defined]
                    self._index(m, fn.body, qual + "." + name + ".")
                self._index(m, [s for s in st.body if isinstance(s, ast.ClassDef)], qual + ".")
            elif isinstance(st, (ast.FunctionDef, ast.AsyncFunctionDef)):
                if (m.rel, prefix + st.name) not in self.functions:
                    self.functions[(m.rel, prefix + st.name)] = st
                    st._qual = prefix + st.name  # type: ignore[attr-defined]
                    st._rel = m.rel  # type: ignore[attr-defined]
                    self._index(m, st.body, prefix + st.name + ".")
            elif isinstance(st, (ast.If, ast.Try, ast.With, ast.For, ast.While)):
                # definitions nested in compound statements (rare)
                for field in ("body", "orelse", "finalbody"):
                    self._index(m, getattr(st, field, []) or [], prefix)
                for h in getattr(st, "handlers", []) or []:
                    self._index(m, h.body, prefix)

    # ------------------------------------------------------------------ name resolution
    def resolve_dotted(self, dotted: str, depth: int = 0) -> Optional[Tuple[str, str]]:
        """Resolve "coba.pipes.Shuffle" to (rel, qualname) of a class/function, following
        re-exports through package __init__ files."""
        if depth > 8:
            return None
        parts = dotted.split(".")
        for i in range(len(parts), 0, -1):
            mod = ".".join(parts[:i])
            m = self.by_dotted.get(mod)
            if m is None:
                continue
            rest = parts[i:]
            if not rest:
                return (m.rel, "")
            qual = ".".join(rest)
            if (m.rel, qual) in self.class_index or (m.rel, qual) in self.functions:
                return (m.rel, qual)
            head = rest[0]
            if head in m.imports:
                tgt = m.imports[head] + ("." + ".".join(rest[1:]) if rest[1:] else "")
                return self.resolve_dotted(tgt, depth + 1)
            for star in m.star_imports:
                r = self.resolve_dotted(star + "." + qual, depth + 1)
                if r and r[1]:
                    return r
            # module-level assignment (constants) -- report module with the name
            return (m.rel, qual)
        return None

    def resolve_in(self, m: Module, expr: ast.AST, scope_qual: str = "") -> Optional[Tuple[str, str]]:
        """Resolve a Name/Attribute expression appearing in module `m` to a coba definition."""
        d = dotted_name(_strip_subscript(expr))
        if d is None:
            return None
        head, _, tail = d.partition(".")
        # local (same module) definitions, innermost scope first
        scope = scope_qual
        while True:
            cand = (scope + "." if scope else "") + d
            if (m.rel, cand) in self.class_index or (m.rel, cand) in self.functions:
                return (m.rel, cand)
            if not scope:
                break
            scope = scope.rpartition(".")[0]
        if head in m.imports:
            tgt = m.imports[head] + ("." + tail if tail else "")
            if tgt.startswith("coba"):
                return self.resolve_dotted(tgt)
            return None
        return None

    def _resolve_bases(self, c: ClassInfo):
        for b in c.node.bases:
            d = dotted_name(_strip_subscript(b))
            c.base_names.append(d or ast.unparse(b))
            r = self.resolve_in(c.module, b, c.qual.rpartition(".")[0])
            if r and r in self.class_index:
                c.bases.append(self.class_index[r])

    # ------------------------------------------------------------------ queries
    def module(self, rel: str) -> Module:
        if rel not in self.modules:
            raise AnalysisError(f"anchor file vanished: {rel}")
        return self.modules[rel]

    def func(self, rel: str, qual: str) -> ast.FunctionDef:
        self.module(rel)
        fn = self.functions.get((rel, qual))
        if fn is None:
            raise AnalysisError(f"anchor function vanished: {rel}::{qual}")
        return fn

    def has_func(self, rel: str, qual: str) -> bool:
        return (rel, qual) in self.functions

    def cls(self, rel: str, qual: str) -> ClassInfo:
        self.module(rel)
        c = self.class_index.get((rel, qual))
        if c is None:
            raise AnalysisError(f"anchor class vanished: {rel}::{qual}")
        return c

    def mro(self, c: ClassInfo) -> List[ClassInfo]:
        """Linearisation good enough for look-ups (depth-first, left to right, dedup keeping
        the last occurrence as C3 would for the diamond shapes in this repository)."""
        out: List[ClassInfo] = []

        def visit(k: ClassInfo):
            out.append(k)
            for b in k.bases:
                visit(b)

        visit(c)
        seen = set()
        res = []
        for k in reversed(out):
            if k.key not in seen:
                seen.add(k.key)
                res.append(k)
        res.reverse()
        # keep c first
        res.sort(key=lambda k: 0 if k is c else 1)
        return res

    def lookup_method(self, c: ClassInfo, name: str) -> Optional[Tuple[ClassInfo, ast.FunctionDef]]:
        for k in self.mro(c):
            if name in k.methods:
                return k, k.methods[name]
        return None

    def subclasses(self, c: ClassInfo, strict: bool = True) -> List[ClassInfo]:
        out, seen, todo = [], set(), [c]
        while todo:
            k = todo.pop()
            for s in self._subs.get(k.key, []):
                if s.key not in seen:
                    seen.add(s.key)
                    out.append(s)
                    todo.append(s)
        if not strict:
            out.insert(0, c)
        return sorted(out, key=lambda k: (k.rel, k.node.lineno))

    def is_subclass(self, c: ClassInfo, base: ClassInfo) -> bool:
        return any(k.key == base.key for k in self.mro(c))

    def digests(self, rels: Iterable[str]) -> Dict[str, str]:
        return {r: self.modules[r].digest[:16] for r in sorted(set(rels)) if r in self.modules}

    def all_functions(self) -> Iterable[Tuple[str, str, ast.FunctionDef]]:
        for (rel, qual), fn in sorted(self.functions.items()):
            yield rel, qual, fn


# ---------------------------------------------------------------------- small AST helpers
def parent(node: ast.AST) -> Optional[ast.AST]:
    return getattr(node, "_parent", None)


def ancestors(node: ast.AST) -> Iterable[ast.AST]:
    p = parent(node)
    while p is not None:
        yield p
        p = parent(p)


def qualname(node) -> str:
    """Dotted Class.func name of the innermost definitions enclosing `node` ('<module>' at top level)."""
    parts = []
    n = node
    while n is not None:
        if isinstance(n, (ast.FunctionDef, ast.AsyncFunctionDef, ast.ClassDef)):
            parts.append(n.name)
        n = parent(n)
    return ".".join(reversed(parts)) or "<module>"


def enclosing_function(node: ast.AST) -> Optional[ast.FunctionDef]:
    for a in ancestors(node):
        if isinstance(a, (ast.FunctionDef, ast.AsyncFunctionDef, ast.Lambda)):
            return a  # type: ignore[return-value]
    return None


def walk_shallow(node: ast.AST, skip_root_check: bool = True) -> Iterable[ast.AST]:
    """ast.walk that does not descend into nested function/class definitions (lambdas and
    comprehensions ARE descended into: they execute as part of the enclosing expression...
    lambdas only when called, which callers must keep in mind)."""
    todo = [node]
    first = True
    while todo:
        n = todo.pop()
        if not first and isinstance(n, (ast.FunctionDef, ast.AsyncFunctionDef, ast.ClassDef)):
            continue
        first = False
        yield n
        todo.extend(reversed(list(ast.iter_child_nodes(n))))  # pre-order, source order


def is_self_attr(e: ast.AST, attr: str = None) -> bool:
    return (isinstance(e, ast.Attribute) and isinstance(e.value, ast.Name) and e.value.id == "self"
            and (attr is None or e.attr == attr))


def call_name(call: ast.Call) -> Optional[str]:
    """dotted callee text of a call, e.g. "self._file.write", "deepcopy"."""
    return dotted_name(call.func)


def is_generator(fn: ast.AST) -> bool:
    for n in walk_shallow(fn):
        if isinstance(n, (ast.Yield, ast.YieldFrom)) and enclosing_function(n) is fn:
            return True
    return False


def function_locals(fn: ast.AST) -> set:
    """names bound inside fn (not its parameters): the names a behaviour-preserving rename may change."""
    cached = getattr(fn, "_locals", None)
    if cached is not None:
        return cached
    out = set()
    for n in ast.walk(fn):
        if isinstance(n, ast.Name) and isinstance(n.ctx, (ast.Store, ast.Del)):
            out.add(n.id)
        elif isinstance(n, ast.ExceptHandler) and n.name:
            out.add(n.name)
    if isinstance(fn, (ast.FunctionDef, ast.AsyncFunctionDef)):
        a = fn.args
        for p in a.args + a.kwonlyargs + a.posonlyargs + ([a.vararg] if a.vararg else []) + ([a.kwarg] if a.kwarg else []):
            out.discard(p.arg)
    try:
        fn._locals = out  # type: ignore[attr-defined]
    except Exception:  # pragma: no cover
        pass
    return out


def canon_text(node: ast.AST, text: str = None) -> str:
    """text of node with the enclosing function's local variable names replaced by positional placeholders
    ($1, $2, ... in order of first occurrence), so that renaming a local does not change a stable key."""
    fn = node if isinstance(node, (ast.FunctionDef, ast.AsyncFunctionDef)) else enclosing_function(node)
    while fn is not None and isinstance(fn, ast.Lambda):
        fn = enclosing_function(fn)
    if fn is None:
        return text if text is not None else ast.unparse(node)
    locs = function_locals(fn)
    # locals of enclosing functions too (closures)
    outer = enclosing_function(fn)
    while outer is not None:
        if not isinstance(outer, ast.Lambda):
            locs = locs | function_locals(outer)
        outer = enclosing_function(outer)
    if not locs:
        return text if text is not None else ast.unparse(node)
    import copy
    order = {}

    class R(ast.NodeTransformer):
        def visit_Name(self, n):
            if n.id in locs:
                if n.id not in order:
                    order[n.id] = f"${len(order) + 1}"
                return ast.copy_location(ast.Name(id=order[n.id], ctx=n.ctx), n)
            return n

    c = copy.deepcopy(node) if not hasattr(node, "_parent") else _copy_without_parents(node)
    c = R().visit(c)
    return c


def _copy_without_parents(node):
    import copy
    memo = {}

    def strip(n):
        for x in ast.walk(n):
            if hasattr(x, "_parent"):
                memo[id(x)] = x._parent
                del x._parent
    def restore(n):
        for x in ast.walk(n):
            if id(x) in memo:
                x._parent = memo[id(x)]
    strip(node)
    try:
        return copy.deepcopy(node)
    finally:
        restore(node)


def norm_stmt(node: ast.AST, limit: int = 160, canon: bool = True) -> str:
    """Line-number-free, local-name-free text of a statement/expression used in stable keys."""
    try:
        if canon:
            c = canon_text(node)
            if isinstance(c, ast.AST):
                node = c
        if isinstance(node, ast.If):
            s = "if " + ast.unparse(node.test)
        elif isinstance(node, ast.While):
            s = "while " + ast.unparse(node.test)
        elif isinstance(node, ast.For):
            s = "for " + ast.unparse(node.target) + " in " + ast.unparse(node.iter)
        elif isinstance(node, ast.With):
            s = "with " + ", ".join(ast.unparse(i) for i in node.items)
        elif isinstance(node, ast.Try):
            s = "try"
        elif isinstance(node, (ast.FunctionDef, ast.ClassDef)):
            s = "def " + node.name
        else:
            s = ast.unparse(node)
    except Exception:  # pragma: no cover
        s = type(node).__name__
    s = " ".join(s.split())
    return s[:limit]


def rename_copy(fn: ast.AST, mapping: Dict[str, str]) -> ast.AST:
    """a deep copy of function `fn` in which the local names in `mapping` (actual -> role name) are renamed; parent
    pointers, line numbers and the _qual/_rel annotations are kept.  Rules written against role names can then be run on
    code whose locals were renamed (the mapping is computed by role, e.g. 'the name bound to peek_first(...)[1]')."""
    mapping = {k: v for k, v in mapping.items() if k and v and k != v}
    c = _copy_without_parents(fn)
    for n in ast.walk(c):  # memoised facts of the original nodes do not survive renaming
        for a in ("_txt_memo", "_stored_memo", "_mr_memo", "_cy_memo", "_locals"):
            if hasattr(n, a):
                delattr(n, a)
    if mapping:
        clash = set(mapping.values()) & ({n.id for n in ast.walk(c) if isinstance(n, ast.Name)} - set(mapping))
        for n in ast.walk(c):
            if isinstance(n, ast.Name):
                if n.id in mapping:
                    n.id = mapping[n.id]
                elif n.id in clash:
                    n.id = n.id + "__other"
    for p in ast.walk(c):
        for ch in ast.iter_child_nodes(p):
            ch._parent = p  # type: ignore[attr-defined]
    c._parent = getattr(fn, "_parent", None)  # type: ignore[attr-defined]
    for a in ("_qual", "_rel"):
        if hasattr(fn, a):
            setattr(c, a, getattr(fn, a))
    return c
