#!/venv/bin/python
"""Regenerate /verif/MANIFEST.json from the rule modules that exist (run from /verif)."""
import importlib
import json
import os
import sys

sys.path.insert(0, os.path.dirname(os.path.dirname(os.path.abspath(__file__))))
from cobastatic.runner import PROPERTIES  # noqa: E402

BASELINE = ("cd /repo && /venv/bin/python -m pytest -ra -q -p no:cacheprovider --timeout=900 "
            "--continue-on-collection-errors")

PENDING_REASON = "static check not built yet in this round (planned in DESIGN.md section 5)"

checks, na = [], []
for p in PROPERTIES:
    try:
        mod = importlib.import_module(f"cobastatic.rules.{p.lower()}")
    except ModuleNotFoundError:
        na.append({"property_id": p, "reason": PENDING_REASON})
        continue
    if getattr(mod, "NOT_APPLICABLE", None):
        na.append({"property_id": p, "reason": mod.NOT_APPLICABLE})
        continue
    checks.append({
        "property_id": p,
        "quick_cmd": f"/venv/bin/python -m cobastatic.runner {p} --tier quick",
        "thorough_cmd": f"/venv/bin/python -m cobastatic.runner {p} --tier thorough",
        "evidence_file": f"/verif/evidence/{p}.json",
        "replay_cmd_template": f"/venv/bin/python -m cobastatic.runner {p} --replay {{path}}",
        "engine": "cobastatic",
        "level_claimed": {
            "category": "other",
            "text": getattr(mod, "LEVEL_TEXT", "") or ("static analysis of /repo's current source: " + mod.EXPLANATION),
            "design_ref": f"DESIGN.md section 5, {p}",
        },
        "level_note": getattr(mod, "LEVEL_NOTE", "Decides only the structural clauses named in level_claimed.text (necessary "
                              "conditions of the property), not the behaviour as a whole. Trusted base: CPython's ast module, the "
                              "cobastatic engine (CFG/dataflow/flag evaluator), class-hierarchy call resolution; dynamic Python "
                              "features (monkey-patching, getattr) are outside the model."),
        "technique": getattr(mod, "TECHNIQUE", "static analysis: repository-specific AST/CFG/dataflow rules"),
    })

manifest = {
    "version": 1,
    "setup_cmd": "/venv/bin/python -c \"import ast,sys; sys.path.insert(0,'/verif'); import cobastatic.runner\"",
    "hooks": {
        "guard": "COBA_VERIF",
        "enable": "none needed: the checks are static and read /repo's working tree; no instrumentation exists in /repo",
        "baseline_off_cmd": BASELINE,
        "source_commits": [],
        "add_only": True,
    },
    "engines": [{
        "name": "cobastatic",
        "path": "/verif/cobastatic",
        "serves_properties": [c["property_id"] for c in checks],
        "kind_free_text": "pure-stdlib static analyser specific to coba: program model (imports, class hierarchy), statement CFG "
                          "with exception/finally/with/generator-abandonment edges, forward dataflow, constant-propagating flag "
                          "evaluator over finite configuration spaces, interval domain, sibling/table agreement rules; positive "
                          "controls by AST-located mutation overlays",
    }],
    "checks": checks,
    "not_applicable": na,
    "notes": "Every check is static (nothing from coba is imported or executed). Exit 0 = held (KNOWN-FINDING lines for entries of "
             "/verif/known_findings.json), 1 = VIOLATION, 2 = ANALYSIS-ERROR (anchor vanished / instance floor not met / positive "
             "control not flagged).",
}
with open(os.path.join(os.path.dirname(os.path.dirname(os.path.abspath(__file__))), "MANIFEST.json"), "w") as fh:
    json.dump(manifest, fh, indent=1)
print(f"checks={len(checks)} not_applicable={len(na)}")
