#!/venv/bin/python
"""tools/add_finding.py fixed|known PROPERTY KEY WHAT DEMONSTRATED_BY [COMMIT] -- edit known_findings.json (never run by checks)."""
import json, sys, os
p = os.path.join(os.path.dirname(os.path.dirname(os.path.abspath(__file__))), "known_findings.json")
d = json.load(open(p))
status, prop, key, what, demo = sys.argv[1:6]
e = {"property": prop, "status": status, "key": key, "what": what, "demonstrated_by": demo}
if status == "fixed":
    e["commit"] = sys.argv[6]
    e["entry"] = f"fixed: property={prop} {sys.argv[6]} {what}"
d["findings"] = [f for f in d["findings"] if not (f["key"] == key and f["property"] == prop)] + [e]
json.dump(d, open(p, "w"), indent=1)
print("ok", len(d["findings"]))
