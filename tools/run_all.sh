#!/bin/bash
# run every implemented check (quick by default) and print one line each
tier=${1:-quick}
cd "$(dirname "$0")/.."
for f in cobastatic/rules/c[0-9][0-9].py; do
  p=$(basename $f .py | tr a-z A-Z)
  s=$(date +%s.%N)
  out=$(/venv/bin/python -m cobastatic.runner $p --tier $tier 2>&1); rc=$?
  e=$(date +%s.%N)
  printf "%s rc=%s %.1fs %s\n" $p $rc $(echo "$e - $s" | bc) "$(echo "$out" | grep -c KNOWN-FINDING) known"
  if [ $rc -ne 0 ]; then echo "$out" | grep -v "  rule" | grep -v conda | head -8; fi
done
