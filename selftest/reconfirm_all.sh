#!/bin/bash
# reconfirm_all.sh <worktree> <out log> <seed names...> : re-confirm filed seeds (/verif/seeded/<name>) against the worktree's HEAD:
# demo passes on the clean tree, fails with the patch, existing suite unchanged with the patch
WT=$1; LOG=$2; shift; shift
cd $WT || exit 2
: > $LOG
for name in "$@"; do
  d=/verif/seeded/$name
  git checkout -q -- . ; git clean -fdq
  PYTHONPATH=$WT timeout 900 /venv/bin/python -W ignore $d/demo.py > /tmp/wt3/rc_$name.clean.log 2>&1; rc_clean=$?
  git apply $d/patch.diff 2>/dev/null || { echo "$name: patch does not apply" >> $LOG; continue; }
  PYTHONPATH=$WT timeout 900 /venv/bin/python -W ignore $d/demo.py > /tmp/wt3/rc_$name.patched.log 2>&1; rc_patched=$?
  /venv/bin/python -m pytest -q -p no:cacheprovider --timeout=900 --continue-on-collection-errors coba/tests > /tmp/wt3/rc_$name.suite.log 2>&1
  summary=$(tail -1 /tmp/wt3/rc_$name.suite.log)
  fails=$(grep -E "^(FAILED|ERROR)" /tmp/wt3/rc_$name.suite.log | sort | md5sum | cut -c1-8)
  git checkout -q -- . ; git clean -fdq
  echo "$name: demo clean rc=$rc_clean patched rc=$rc_patched | suite: $summary | failset=$fails | head=$(git rev-parse --short HEAD)" >> $LOG
done
