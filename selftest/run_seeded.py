#!/venv/bin/python
"""Run every seeded change in /verif/seeded/<P>-<k>/patch.diff against the check of its own property (and report which other
checks fire as well with --all).  Each patch is applied to a scratch copy of /repo's working tree outside /repo and /verif."""
import json, os, shutil, subprocess, sys, tempfile
from concurrent.futures import ProcessPoolExecutor
sys.path.insert(0, os.path.dirname(os.path.abspath(__file__)))
SEEDED = "/verif/seeded"


def one(args):
    name, allprops = args
    from common import run_tree, PROPERTIES
    patch = os.path.join(SEEDED, name, "patch.diff")
    prop = name.split("-")[0]
    tmp = tempfile.mkdtemp(prefix="coba_seed_")
    try:
        shutil.copytree("/repo/coba", os.path.join(tmp, "coba"), ignore=shutil.ignore_patterns("__pycache__", "tests"))
        r = subprocess.run(["patch", "-p1", "-s", "-i", patch], cwd=tmp, capture_output=True, text=True)
        if r.returncode != 0:
            return name, {"error": "patch failed"}
        res = {}
        for p in (PROPERTIES if allprops else [prop]):
            new, err = run_tree(p, tmp)
            if err:
                res[p] = {"error": err[:160]}
            elif new:
                res[p] = {"rules": sorted({o.rule for o in new}), "first": f"{new[0].file}:{new[0].line} {new[0].desc[:100]}"}
        return name, res
    finally:
        shutil.rmtree(tmp, ignore_errors=True)


def main():
    allprops = "--all" in sys.argv
    names = sorted(d for d in os.listdir(SEEDED) if os.path.exists(os.path.join(SEEDED, d, "patch.diff")))
    with ProcessPoolExecutor(max_workers=min(16, os.cpu_count() or 1)) as ex:
        results = dict(ex.map(one, [(n, allprops) for n in names]))
    missed = 0
    for n in names:
        prop = n.split("-")[0]
        r = results[n]
        own = r.get(prop)
        status = "CAUGHT " + ",".join(own["rules"]) if own and "rules" in own else ("ERROR " + own["error"] if own else "MISSED")
        if not (own and "rules" in own):
            missed += 1
        others = [p for p in r if p != prop and "rules" in r[p]]
        print(f"{n}: {status}" + (f"  (also: {', '.join(others)})" if others else ""))
    json.dump(results, open(os.path.join(os.path.dirname(os.path.abspath(__file__)), "seeded_results.json"), "w"), indent=1, sort_keys=True)
    print(f"{len(names) - missed}/{len(names)} seeded changes detected by the check of their own property")
    return 1 if missed else 0


if __name__ == "__main__":
    sys.exit(main())
