"""Behaviour-preserving source transformations used to measure false alarms of the checks."""
import ast
import builtins
import warnings


class _LocalRenamer(ast.NodeTransformer):
    """rename every local variable (not parameters, not names declared global/nonlocal, not names that are only read
    -- i.e. globals/builtins/closure variables) of every function by appending a suffix."""

    def __init__(self, suffix="_r"):
        self.suffix = suffix

    def _rename_in(self, fn):
        params = {a.arg for a in fn.args.args + fn.args.kwonlyargs + fn.args.posonlyargs}
        if fn.args.vararg:
            params.add(fn.args.vararg.arg)
        if fn.args.kwarg:
            params.add(fn.args.kwarg.arg)
        declared = set()
        stored = set()
        nested_free = set()

        def walk(n, top=True):
            for c in ast.iter_child_nodes(n):
                if isinstance(c, (ast.FunctionDef, ast.AsyncFunctionDef, ast.Lambda, ast.ClassDef)):
                    # names used by nested scopes must keep working: they see the renamed locals through closures,
                    # which we rename consistently below (we rename inside nested lambdas/defs too unless shadowed)
                    walk_nested(c)
                    continue
                if isinstance(c, (ast.Global, ast.Nonlocal)):
                    declared.update(c.names)
                if isinstance(c, ast.Name) and isinstance(c.ctx, (ast.Store, ast.Del)):
                    stored.add(c.id)
                if isinstance(c, ast.ExceptHandler) and c.name:
                    pass
                walk(c, False)

        def walk_nested(n):
            for c in ast.walk(n):
                if isinstance(c, ast.Name):
                    nested_free.add(c.id)

        walk(fn)
        # do not rename names that nested scopes refer to (keeps closures trivially correct), nor def/class names
        defs = {c.name for c in ast.walk(fn) if isinstance(c, (ast.FunctionDef, ast.ClassDef)) and c is not fn}
        targets = {n for n in stored if n not in params and n not in declared and n not in nested_free and n not in defs
                   and not hasattr(builtins, n) and not n.startswith("__")}
        # comprehension variables are their own scope in py3 but renaming them consistently is also fine
        suffix = self.suffix

        class R(ast.NodeTransformer):
            def visit_FunctionDef(self, node):
                return node  # nested function: untouched (it does not refer to renamed names by construction)
            visit_AsyncFunctionDef = visit_FunctionDef
            visit_Lambda = visit_FunctionDef
            visit_ClassDef = visit_FunctionDef

            def visit_Name(self, node):
                if node.id in targets:
                    return ast.copy_location(ast.Name(id=node.id + suffix, ctx=node.ctx), node)
                return node

        for i, st in enumerate(fn.body):
            fn.body[i] = R().visit(st)
        return fn

    def visit_FunctionDef(self, node):
        self.generic_visit(node)  # inner functions first
        return self._rename_in(node)

    visit_AsyncFunctionDef = visit_FunctionDef


def rename_locals(src, suffix="_r"):
    with warnings.catch_warnings():
        warnings.simplefilter("ignore")
        tree = ast.parse(src)
    tree = _LocalRenamer(suffix).visit(tree)
    ast.fix_missing_locations(tree)
    return ast.unparse(tree) + "\n"


def insert_noops(src):
    """insert a `pass` at the start of every function body (after the docstring), of every loop body and of every if/else body,
    and give every function without one a docstring"""
    with warnings.catch_warnings():
        warnings.simplefilter("ignore")
        tree = ast.parse(src)
    for n in ast.walk(tree):
        if isinstance(n, (ast.FunctionDef, ast.AsyncFunctionDef)):
            body = n.body
            has_doc = body and isinstance(body[0], ast.Expr) and isinstance(body[0].value, ast.Constant) and isinstance(body[0].value.value, str)
            if not has_doc:
                body.insert(0, ast.Expr(ast.Constant("doc")))
            body.insert(1, ast.Pass())
        elif isinstance(n, (ast.For, ast.While, ast.With)):
            n.body.insert(0, ast.Pass())
        elif isinstance(n, ast.If):
            n.body.insert(0, ast.Pass())
            if n.orelse and not (len(n.orelse) == 1 and isinstance(n.orelse[0], ast.If)):
                n.orelse.insert(0, ast.Pass())
        elif isinstance(n, ast.Try):
            n.body.insert(0, ast.Pass())
            for h in n.handlers:
                h.body.insert(0, ast.Pass())
    ast.fix_missing_locations(tree)
    return ast.unparse(tree) + "\n"


def flip_comparisons(src):
    """write every single-operator order/equality comparison with its operands exchanged (a < b -> b > a, a == b -> b == a).
    Behaviour-preserving for side-effect-free operands (all comparisons in the package are of that kind)."""
    with warnings.catch_warnings():
        warnings.simplefilter("ignore")
        tree = ast.parse(src)
    swap = {ast.Lt: ast.Gt, ast.Gt: ast.Lt, ast.LtE: ast.GtE, ast.GtE: ast.LtE, ast.Eq: ast.Eq, ast.NotEq: ast.NotEq}

    class F(ast.NodeTransformer):
        def visit_Compare(self, node):
            self.generic_visit(node)
            if len(node.ops) == 1 and type(node.ops[0]) in swap:
                return ast.copy_location(ast.Compare(left=node.comparators[0], ops=[swap[type(node.ops[0])]()], comparators=[node.left]), node)
            return node
    tree = F().visit(tree)
    ast.fix_missing_locations(tree)
    return ast.unparse(tree) + "\n"


def permute_methods(src):
    """reverse the order of the plain (undecorated) methods of every class and of the plain functions of every module: definition order of
    undecorated defs carries no meaning (decorated ones -- properties with setters, registrations -- and all other statements keep their places)."""
    with warnings.catch_warnings():
        warnings.simplefilter("ignore")
        tree = ast.parse(src)

    def permute(body):
        idx = [i for i, st in enumerate(body) if isinstance(st, (ast.FunctionDef, ast.AsyncFunctionDef)) and not st.decorator_list]
        # names a module-level statement may call while the module is still being executed must stay defined before it: only permute runs of
        # defs that are not separated by other statements
        runs, cur = [], []
        for i in range(len(body)):
            if i in idx:
                cur.append(i)
            else:
                if len(cur) > 1:
                    runs.append(cur)
                cur = []
        if len(cur) > 1:
            runs.append(cur)
        for run in runs:
            defs = [body[i] for i in run]
            names = [d.name for d in defs]
            if len(set(names)) != len(names):
                continue  # a later def overrides an earlier one of the same name: order matters
            for i, d in zip(run, reversed(defs)):
                body[i] = d
    for node in ast.walk(tree):
        if isinstance(node, (ast.ClassDef, ast.Module)):
            permute(node.body)
    ast.fix_missing_locations(tree)
    return ast.unparse(tree)


class _DeMorgan(ast.NodeTransformer):
    """not (a or b) <-> (not a) and (not b); `x if c else y` -> `y if not c else x` is NOT applied (too invasive); double negations are removed."""

    def visit_UnaryOp(self, node):
        self.generic_visit(node)
        if isinstance(node.op, ast.Not) and isinstance(node.operand, ast.BoolOp):
            op = ast.And() if isinstance(node.operand.op, ast.Or) else ast.Or()
            return ast.copy_location(ast.BoolOp(op=op, values=[ast.UnaryOp(op=ast.Not(), operand=v) for v in node.operand.values]), node)
        if isinstance(node.op, ast.Not) and isinstance(node.operand, ast.UnaryOp) and isinstance(node.operand.op, ast.Not):
            return node  # leave `not not x` (a bool() conversion) alone
        return node


def de_morgan(src):
    with warnings.catch_warnings():
        warnings.simplefilter("ignore")
        tree = ast.parse(src)
    tree = _DeMorgan().visit(tree)
    ast.fix_missing_locations(tree)
    return ast.unparse(tree)


class _ReturnVar(ast.NodeTransformer):
    """`return <expr>` -> `_ret = <expr>; return _ret` for non-trivial expressions (an 'introduce variable' refactoring)."""

    def _rewrite(self, body):
        out = []
        for st in body:
            if isinstance(st, ast.Return) and st.value is not None and not isinstance(st.value, (ast.Name, ast.Constant)):
                out.append(ast.Assign(targets=[ast.Name(id="_ret", ctx=ast.Store())], value=st.value, lineno=st.lineno))
                out.append(ast.Return(value=ast.Name(id="_ret", ctx=ast.Load())))
            else:
                out.append(st)
        return out

    def generic_visit(self, node):
        super().generic_visit(node)
        for field in ("body", "orelse", "finalbody"):
            b = getattr(node, field, None)
            if isinstance(b, list) and b and isinstance(b[0], ast.stmt):
                setattr(node, field, self._rewrite(b))
        return node


def return_variable(src):
    with warnings.catch_warnings():
        warnings.simplefilter("ignore")
        tree = ast.parse(src)
    tree = _ReturnVar().visit(tree)
    ast.fix_missing_locations(tree)
    return ast.unparse(tree)


class _SwapIfElse(ast.NodeTransformer):
    """`if c: A else: B` -> `if not c: B else: A` for plain two-armed ifs (no elif chains), and `x if c else y` -> `y if not c else x`."""

    def visit_If(self, node):
        self.generic_visit(node)
        if node.orelse and not (len(node.orelse) == 1 and isinstance(node.orelse[0], ast.If)):
            test = node.test.operand if isinstance(node.test, ast.UnaryOp) and isinstance(node.test.op, ast.Not) else ast.UnaryOp(op=ast.Not(), operand=node.test)
            return ast.copy_location(ast.If(test=test, body=node.orelse, orelse=node.body), node)
        return node

    def visit_IfExp(self, node):
        self.generic_visit(node)
        test = node.test.operand if isinstance(node.test, ast.UnaryOp) and isinstance(node.test.op, ast.Not) else ast.UnaryOp(op=ast.Not(), operand=node.test)
        return ast.copy_location(ast.IfExp(test=test, body=node.orelse, orelse=node.body), node)


def swap_if_else(src):
    with warnings.catch_warnings():
        warnings.simplefilter("ignore")
        tree = ast.parse(src)
    tree = _SwapIfElse().visit(tree)
    ast.fix_missing_locations(tree)
    return ast.unparse(tree)


class _ExpandAug(ast.NodeTransformer):
    """`x += c` -> `x = x + c` and `x -= c` -> `x = x - c` where x is a plain name and c a numeric literal (a number has no in-place addition, so
    the two spellings are the same statement), and the reverse for `x = x + c` is NOT applied (one direction is enough to expose spelling dependence)."""

    def visit_AugAssign(self, node):
        self.generic_visit(node)
        if isinstance(node.target, ast.Name) and isinstance(node.op, (ast.Add, ast.Sub)) and isinstance(node.value, ast.Constant) \
                and isinstance(node.value.value, (int, float)) and not isinstance(node.value.value, bool):
            return ast.copy_location(ast.Assign(targets=[ast.Name(node.target.id, ast.Store())],
                                                value=ast.BinOp(ast.Name(node.target.id, ast.Load()), node.op, node.value)), node)
        return node


def expand_augassign(src):
    with warnings.catch_warnings():
        warnings.simplefilter("ignore")
        tree = ast.parse(src)
    tree = _ExpandAug().visit(tree)
    ast.fix_missing_locations(tree)
    return ast.unparse(tree)
