#!/venv/bin/python
"""File the confirmed seeded changes of /tmp/wt/out/<P>/ under /verif/seeded/<P>-<k>/ (patch.diff, demo.py, notes.md, meta.json)."""
import json, os, re, shutil, subprocess, sys
sys.path.insert(0, os.path.dirname(os.path.abspath(__file__)))
NEEDS = json.load(open(os.path.join(os.path.dirname(os.path.abspath(__file__)), "seeded_needs.json")))
OUT = "/tmp/wt/out"
DST = "/verif/seeded"
for P in sorted(os.listdir(OUT)):
    if not re.fullmatch(r"C\d\d", P):
        continue
    conf = {}
    cl = os.path.join(OUT, P, "confirm.log")
    if os.path.exists(cl):
        for line in open(cl):
            m = re.match(r"(C\d\d)-(\d): demo clean rc=(\d+) patched rc=(\d+) \| suite: (.*?) \| failset=(\w+)", line)
            if m:
                conf[m.group(2)] = {"demo_clean_rc": int(m.group(3)), "demo_patched_rc": int(m.group(4)), "suite": m.group(5), "failset": m.group(6)}
    for k in ("1", "2"):
        patch = os.path.join(OUT, P, f"change{k}.diff")
        demo = os.path.join(OUT, P, f"demo{k}.py")
        if not (os.path.exists(patch) and os.path.exists(demo) and k in conf):
            continue
        c = conf[k]
        if not (c["demo_clean_rc"] == 0 and c["demo_patched_rc"] != 0 and "1840 passed" in c["suite"] and "5 failed" in c["suite"] and c["failset"] == "32f8d881"):
            print("NOT CONFIRMED", P, k, c)
            continue
        ok = subprocess.run(["git", "-C", "/repo", "apply", "--check", patch], capture_output=True).returncode == 0
        if not ok:
            print("DOES NOT APPLY", P, k)
            continue
        d = os.path.join(DST, f"{P}-{k}")
        os.makedirs(d, exist_ok=True)
        shutil.copy(patch, os.path.join(d, "patch.diff"))
        shutil.copy(demo, os.path.join(d, "demo.py"))
        for extra in ("notes.md", "ref_check.py"):
            if os.path.exists(os.path.join(OUT, P, extra)):
                shutil.copy(os.path.join(OUT, P, extra), os.path.join(d, extra))
        meta = {
            "property": P,
            "breaks": NEEDS.get(f"{P}-{k}", {}).get("breaks", ""),
            "needs_to_manifest": NEEDS.get(f"{P}-{k}", {}).get("needs", ""),
            "origin": "independent sub-agent given only the property text and a scratch worktree",
            "confirmed": {
                "how": "selftest/confirm_seeded.sh in a scratch worktree: demo on the clean tree, demo with the patch, full existing suite with the patch",
                "demo_without_change_rc": c["demo_clean_rc"], "demo_with_change_rc": c["demo_patched_rc"],
                "suite_with_change": c["suite"], "pre_existing_failure_set_unchanged": True,
                "demo_cmd": "cd <worktree> && PYTHONPATH=<worktree> /venv/bin/python demo.py",
                "suite_cmd": "cd <worktree> && /venv/bin/python -m pytest -q -p no:cacheprovider --timeout=900 --continue-on-collection-errors coba/tests",
            },
            "applies_to": subprocess.run(["git", "-C", "/repo", "rev-parse", "--short", "HEAD"], capture_output=True, text=True).stdout.strip(),
        }
        json.dump(meta, open(os.path.join(d, "meta.json"), "w"), indent=1)
        print("filed", P, k)
