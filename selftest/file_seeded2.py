#!/venv/bin/python
"""File the round-2 seeded changes (/tmp/wt2/out/<P>/change{1,2,3}.diff) that were re-confirmed against the current /repo HEAD
(selftest/confirm_seeded3.sh logs in /tmp/wt3/c*.log) under /verif/seeded/<P>-<k+2>/ (patch.diff, demo.py, notes.md, meta.json)."""
import glob, json, os, re, shutil, subprocess

OUT = os.environ.get("SEED_OUT", "/tmp/wt2/out")
DST = "/verif/seeded"
conf = {}
for f in glob.glob(os.environ.get("SEED_LOGS", "/tmp/wt3/c[1-4].log")):
    for line in open(f):
        m = re.match(r"(C\d\d)-(\d): demo clean rc=(\d+) patched rc=(\d+) \| suite: (.*?) \| failset=(\w+) \| head=(\w+)", line)
        if m:
            conf[(m.group(1), m.group(2))] = {"demo_clean_rc": int(m.group(3)), "demo_patched_rc": int(m.group(4)), "suite": m.group(5), "failset": m.group(6), "head": m.group(7)}


def sections(notes):
    out, cur, buf = {}, None, []
    for line in notes.splitlines():
        m = re.match(r"^#+\s*(?:\d+\.\s*)?[Cc]hange\s*(\d)\b(.*)", line)
        if m:
            if cur:
                out[cur] = buf
            cur, buf = m.group(1), [line]
        elif re.match(r"^#+\s", line) and cur:
            out[cur] = buf
            cur, buf = None, []
        elif cur:
            buf.append(line)
    if cur:
        out[cur] = buf
    return out


def needs_of(lines):
    for i, l in enumerate(lines):
        if re.search(r"(?i)need(ed|s)?\s*(to manifest|:)|to manifest", l):
            txt = [l]
            for l2 in lines[i + 1:]:
                if not l2.strip() or re.match(r"^(\* |- |#|Suite|demo)", l2):
                    if len(" ".join(txt)) > 60:
                        break
                    if not l2.strip():
                        continue
                txt.append(l2)
            return re.sub(r"\s+", " ", " ".join(txt)).strip(" *-")[:900]
    return ""


filed = 0
for P in sorted(os.listdir(OUT)):
    if not re.fullmatch(r"C\d\d", P):
        continue
    notes = open(os.path.join(OUT, P, "notes.md")).read() if os.path.exists(os.path.join(OUT, P, "notes.md")) else ""
    secs = sections(notes)
    for k in ("1", "2", "3"):
        patch, demo = os.path.join(OUT, P, f"change{k}.diff"), os.path.join(OUT, P, f"demo{k}.py")
        c = conf.get((P, k))
        if not (os.path.exists(patch) and os.path.exists(demo) and c):
            print("MISSING", P, k)
            continue
        if not (c["demo_clean_rc"] == 0 and c["demo_patched_rc"] != 0 and "1840 passed" in c["suite"] and "5 failed" in c["suite"] and c["failset"] == "32f8d881"):
            print("NOT CONFIRMED", P, k, c)
            continue
        if subprocess.run(["git", "-C", "/repo", "apply", "--check", patch], capture_output=True).returncode != 0:
            print("DOES NOT APPLY", P, k)
            continue
        d = os.path.join(DST, f"{P}-{int(k) + int(os.environ.get("SEED_OFFSET", "2"))}")
        os.makedirs(d, exist_ok=True)
        shutil.copy(patch, os.path.join(d, "patch.diff"))
        shutil.copy(demo, os.path.join(d, "demo.py"))
        sec = secs.get(k, [])
        open(os.path.join(d, "notes.md"), "w").write("\n".join(sec) + "\n" if sec else notes)
        head = re.sub(r"^#+\s*", "", sec[0]) if sec else ""
        meta = {
            "property": P, "round": int(os.environ.get("SEED_ROUND", "2")),
            "breaks": head,
            "needs_to_manifest": needs_of(sec),
            "origin": "independent sub-agent given only the property text, a scratch worktree and the list of functions changed by the round-1 seeds (to avoid)",
            "confirmed": {
                "how": "selftest/confirm_seeded3.sh in a scratch worktree of the current HEAD: demo on the clean tree, demo with the patch, full existing suite with the patch",
                "demo_without_change_rc": c["demo_clean_rc"], "demo_with_change_rc": c["demo_patched_rc"],
                "suite_with_change": c["suite"], "pre_existing_failure_set_unchanged": True,
                "demo_cmd": "cd <worktree> && PYTHONPATH=<worktree> /venv/bin/python -W ignore demo.py",
                "suite_cmd": "cd <worktree> && /venv/bin/python -m pytest -q -p no:cacheprovider --timeout=900 --continue-on-collection-errors coba/tests",
            },
            "applies_to": c["head"],
        }
        json.dump(meta, open(os.path.join(d, "meta.json"), "w"), indent=1)
        filed += 1
print("filed", filed)
