#!/venv/bin/python
"""Checker self-test (not a registered check): behaviour-preserving transformations of the whole package must raise no new
violation and no analysis error in any check; every seeded change must be caught by the check of its own property.
Usage: /venv/bin/python selftest/run.py [--no-seeded]"""
import json, os, subprocess, sys, time
sys.path.insert(0, os.path.dirname(os.path.abspath(__file__)))
from common import base_model, run_overlay, PROPERTIES, reformat  # noqa: E402
from refactors import rename_locals, insert_noops, flip_comparisons, permute_methods, de_morgan, return_variable, swap_if_else, expand_augassign  # noqa: E402

REFACTORS = [
    ("reformat every module through ast.unparse (layout, quotes, comments gone)", reformat),
    ("rename every local variable of every function", rename_locals),
    ("insert pass statements / docstrings into every body", insert_noops),
    ("exchange the operands of every comparison (a < b -> b > a, x == 1 -> 1 == x)", flip_comparisons),
    ("reverse the order of the undecorated methods of every class / functions of every module", permute_methods),
    ("De Morgan: not (a or b) -> (not a) and (not b), not (a and b) -> (not a) or (not b)", de_morgan),
    ("introduce a variable for every returned expression (t = e; return t)", return_variable),
    ("exchange the arms of every two-armed if / conditional expression under the negated test", swap_if_else),
    ("spell every numeric increment of a name out (x += 1 -> x = x + 1)", expand_augassign),
    ("rename + noops + flipped comparisons + De Morgan + return variables + permuted methods + exchanged arms + spelled-out increments combined",
     lambda s: expand_augassign(swap_if_else(permute_methods(return_variable(de_morgan(flip_comparisons(insert_noops(rename_locals(s))))))))),
]


def main():
    m = base_model()
    out = {"refactors": [], "seeded": None}
    bad = 0
    for name, f in REFACTORS:
        t = time.time()
        overlay = {rel: f(mod.src) for rel, mod in m.modules.items()}
        res = {}
        for p in PROPERTIES:
            new, err = run_overlay(p, overlay)
            if err or new:
                bad += 1
                res[p] = {"error": err, "new_violations": [o.key for o in new][:5]}
        print(f"refactor '{name}': {len(PROPERTIES) - len(res)}/{len(PROPERTIES)} checks silent ({time.time() - t:.0f}s)" + (f"  NOT SILENT: {sorted(res)}" if res else ""))
        out["refactors"].append({"name": name, "not_silent": res})
    if "--no-seeded" not in sys.argv:
        r = subprocess.run([sys.executable, os.path.join(os.path.dirname(os.path.abspath(__file__)), "run_seeded.py")], capture_output=True, text=True)
        last = [l for l in r.stdout.splitlines() if "seeded changes detected" in l]
        print(last[0] if last else r.stdout[-300:])
        out["seeded"] = last[0] if last else None
        bad += r.returncode
    json.dump(out, open(os.path.join(os.path.dirname(os.path.abspath(__file__)), "results.json"), "w"), indent=1)
    return 1 if bad else 0


if __name__ == "__main__":
    sys.exit(main())
