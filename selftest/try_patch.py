#!/venv/bin/python
"""selftest/try_patch.py <patch.diff> [PROP ...] -- apply a patch to a scratch copy of /repo's working tree (outside /repo and
/verif, removed afterwards) and report which checks raise NEW violations (relative to the unpatched tree) or analysis errors."""
import os
import shutil
import subprocess
import sys
import tempfile

sys.path.insert(0, os.path.dirname(os.path.abspath(__file__)))
from common import run_tree, PROPERTIES  # noqa: E402


def main():
    patch = os.path.abspath(sys.argv[1])
    props = [p.upper() for p in sys.argv[2:]] or PROPERTIES
    tmp = tempfile.mkdtemp(prefix="coba_patch_")
    try:
        shutil.copytree("/repo/coba", os.path.join(tmp, "coba"), ignore=shutil.ignore_patterns("__pycache__", "tests"))
        r = subprocess.run(["patch", "-p1", "-s", "-i", patch], cwd=tmp, capture_output=True, text=True)
        if r.returncode != 0:
            print("PATCH-FAILED", r.stdout, r.stderr)
            return 3
        hit = False
        for p in props:
            new, err = run_tree(p, tmp)
            if err:
                print(f"{p}: {err[:200]}")
            for o in new:
                hit = True
                print(f"{p}: VIOLATION [{o.rule}] {o.file}:{o.line} {o.desc[:90]} | {o.stmt[:80]}")
        if not hit:
            print("no check fired")
        return 0 if hit else 1
    finally:
        shutil.rmtree(tmp, ignore_errors=True)


if __name__ == "__main__":
    sys.exit(main())
