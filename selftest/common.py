"""Helpers for the checker self-test: run a property's analysis on an overlay / scratch tree and diff against the base."""
import ast
import os
import sys
import warnings

sys.path.insert(0, os.path.dirname(os.path.dirname(os.path.abspath(__file__))))
from cobastatic.model import Model, AnalysisError  # noqa: E402
from cobastatic.runner import analyse, PROPERTIES, load_known  # noqa: E402

_BASE = {}


def base_model(repo=None):
    key = repo or "default"
    if key not in _BASE:
        _BASE[key] = Model(repo)
    return _BASE[key]


def base_bad(prop, tier="quick", repo=None):
    key = ("bad", prop, tier, repo)
    if key not in _BASE:
        ctx = analyse(prop, tier, base_model(repo), silent=True)
        _BASE[key] = {o.key for o in ctx.obs if not o.ok}
    return _BASE[key]


def run_overlay(prop, overlay, tier="quick", repo=None):
    """-> (new violated obligations, error string or None)"""
    m = base_model(repo)
    try:
        m2 = Model(m.repo, overlay=overlay, base=m)
        ctx = analyse(prop, tier, m2, silent=True)
    except AnalysisError as e:
        return [], f"ANALYSIS-ERROR {e}"
    except Exception as e:  # internal error
        return [], f"INTERNAL {type(e).__name__}: {e}"
    old = base_bad(prop, tier, repo)
    return [o for o in ctx.obs if not o.ok and o.key not in old], None


def run_tree(prop, repo, tier="quick"):
    """analyse a whole scratch tree (e.g. /repo copy with a patch applied); new = not violated on the real tree"""
    try:
        ctx = analyse(prop, tier, Model(repo), silent=True)
    except AnalysisError as e:
        return [], f"ANALYSIS-ERROR {e}"
    except Exception as e:
        return [], f"INTERNAL {type(e).__name__}: {e}"
    old = base_bad(prop, tier)
    return [o for o in ctx.obs if not o.ok and o.key not in old], None


def reformat(src):
    with warnings.catch_warnings():
        warnings.simplefilter("ignore")
        return ast.unparse(ast.parse(src)) + "\n"
