"""selftest/check_placement.py <scratch worktree>: every seeded patch must land in the same functions at /repo HEAD as it did at the
commit it was confirmed on (a hunk whose context occurs twice can be moved to a sibling definition by later repairs).
Prints the seeds whose placement differs."""
import ast, json, os, subprocess, sys, difflib
WT=sys.argv[1]  # a scratch worktree of /repo (outside /repo and /verif)
OLD=os.path.join(os.path.dirname(WT.rstrip('/')),'old_seed.diff')
def sh(*a, **k): return subprocess.run(a, cwd=WT, capture_output=True, text=True, **k)
def quals(src_before, src_after):
    """qualnames of defs/classes enclosing the changed lines (in the AFTER file)"""
    sm = difflib.SequenceMatcher(None, src_before.splitlines(), src_after.splitlines(), autojunk=False)
    lines=set()
    for tag,i1,i2,j1,j2 in sm.get_opcodes():
        if tag!='equal':
            lines |= set(range(j1+1, max(j2,j1+1)+1))
    try: tree=ast.parse(src_after)
    except SyntaxError: return {'<syntax>'}
    out=set()
    def visit(node, prefix):
        for ch in ast.iter_child_nodes(node):
            if isinstance(ch,(ast.FunctionDef,ast.ClassDef,ast.AsyncFunctionDef)):
                q=prefix+[ch.name]
                if any(ch.lineno<=l<=ch.end_lineno for l in lines):
                    inner_before=len(out)
                    visit(ch,q)
                    if len(out)==inner_before: out.add('.'.join(q))
            else:
                visit(ch,prefix)
    visit(tree,[])
    return out or {'<module>'}
def placement(commit, patch):
    sh('git','checkout','-q','--detach',commit); sh('git','checkout','-q','--','.')
    files=[l[6:] for l in open(patch).read().splitlines() if l.startswith('+++ b/')]
    before={f:open(os.path.join(WT,f)).read() if os.path.exists(os.path.join(WT,f)) else '' for f in files}
    r=sh('git','apply',patch)
    if r.returncode: return None
    res={}
    for f in files:
        res[f]=quals(before[f], open(os.path.join(WT,f)).read())
    sh('git','checkout','-q','--','.'); sh('git','clean','-fdq')
    return res
head=subprocess.run(['git','-C','/repo','rev-parse','HEAD'],capture_output=True,text=True).stdout.strip()
for name in sorted(os.listdir('/verif/seeded')):
    d=f'/verif/seeded/{name}'
    meta=json.load(open(d+'/meta.json'))
    base=(meta.get('reconfirmed') or {}).get('head') or (meta.get('confirmed') or {}).get('head') or meta.get('applies_to')
    hist=d+'/patch.diff'
    # the patch as it was when confirmed at `base` lives in git history of /verif
    a=placement(head, hist)
    # original placement: take the version of patch.diff committed at the time of `base` reconfirmation -> use git log of /verif to find first version that applies at base
    revs=subprocess.run(['git','-C','/verif','log','--format=%H','--',f'seeded/{name}/patch.diff'],capture_output=True,text=True).stdout.split()
    b=None
    for rev in revs:
        old=subprocess.run(['git','-C','/verif','show',f'{rev}:seeded/{name}/patch.diff'],capture_output=True,text=True).stdout
        open(OLD,'w').write(old)
        b=placement(base,OLD) if base else None
        if b is not None: break
    status='OK' if a==b else 'DIFF'
    if a is None: status='NOAPPLY'
    if b is None: status+=' (no base placement)'
    if status!='OK': print(name, status, a, b)
print('done')
