#!/bin/bash
# confirm_seeded3.sh <worktree> <PROP>... : re-confirm round-2 seeded changes against the CURRENT /repo HEAD in a scratch worktree
# (demo passes on the clean tree, fails with the change, existing suite unchanged with the change)
WT=$1; shift
cd $WT || exit 2
for P in "$@"; do
  OUT=${OUTBASE:-/tmp/wt2/out}/$P
  for k in 1 2 3; do
    [ -f $OUT/change$k.diff ] || continue
    demo=$(ls $OUT/demo$k.py 2>/dev/null | head -1)
    [ -n "$demo" ] || { echo "$P-$k: no demo"; continue; }
    git checkout -q -- . ; git clean -fdq
    PYTHONPATH=$WT timeout 900 /venv/bin/python -W ignore $demo > $OUT/clean$k.log 2>&1; rc_clean=$?
    git apply $OUT/change$k.diff || { echo "$P-$k: patch does not apply"; continue; }
    PYTHONPATH=$WT timeout 900 /venv/bin/python -W ignore $demo > $OUT/patched$k.log 2>&1; rc_patched=$?
    /venv/bin/python -m pytest -q -p no:cacheprovider --timeout=900 --continue-on-collection-errors coba/tests > $OUT/suite$k.log 2>&1
    summary=$(tail -1 $OUT/suite$k.log)
    fails=$(grep -E "^(FAILED|ERROR)" $OUT/suite$k.log | sort | md5sum | cut -c1-8)
    git checkout -q -- . ; git clean -fdq
    echo "$P-$k: demo clean rc=$rc_clean patched rc=$rc_patched | suite: $summary | failset=$fails | head=$(git rev-parse --short HEAD)"
  done
done
