#!/bin/bash
# confirm_seeded.sh <PROP> : confirm the seeded changes delivered in /tmp/wt2/out/<PROP>/ in the scratch worktree /tmp/wt2/<PROP>
# (demo fails with the change, passes without, existing suite unchanged) and file them under /verif/seeded/<PROP>-<k>/
P=$1
WT=/tmp/wt2/$P
OUT=/tmp/wt2/out/$P
cd $WT || exit 2
git checkout -q -- . ; git clean -fdq
for k in 1 2 3; do
  [ -f $OUT/change$k.diff ] || continue
  demo=$(ls $OUT/demo$k.py $OUT/demo${k}_*.py $OUT/test_demo$k.py 2>/dev/null | head -1)
  [ -n "$demo" ] || { echo "$P-$k: no demo"; continue; }
  git checkout -q -- . ; git clean -fdq
  PYTHONPATH=$WT timeout 600 /venv/bin/python $demo > /tmp/wt2/out/$P/clean$k.log 2>&1; rc_clean=$?
  git apply $OUT/change$k.diff || { echo "$P-$k: patch does not apply"; continue; }
  PYTHONPATH=$WT timeout 600 /venv/bin/python $demo > /tmp/wt2/out/$P/patched$k.log 2>&1; rc_patched=$?
  /venv/bin/python -m pytest -q -p no:cacheprovider --timeout=900 --continue-on-collection-errors coba/tests > /tmp/wt2/out/$P/suite$k.log 2>&1
  summary=$(tail -1 /tmp/wt2/out/$P/suite$k.log)
  fails=$(grep -E "^(FAILED|ERROR)" /tmp/wt2/out/$P/suite$k.log | sort | md5sum | cut -c1-8)
  git checkout -q -- . ; git clean -fdq
  echo "$P-$k: demo clean rc=$rc_clean patched rc=$rc_patched | suite: $summary | failset=$fails"
done
